//! C23S: native replay of one counterexample class of the "state-update half" of C23 (mirsym/q_c23s.py):
//! the async exchange methods of the pallas-network mini-protocol agents must
//!   * on `Err`  leave the agent state (class) unchanged - unless the last completed exchange is listed in the
//!               protocol's "error_reporting_transitions", then the state must be the specification successor;
//!   * on `Ok`   have moved the state along exactly the specification transitions of the messages exchanged
//!               (no exchange: unchanged).
//! The specification tables are /verif/spec/n2_protocols.json (override: C23S_SPEC or C23_SPEC).
//!
//! The real agent is built through the add-only hooks `<Agent>::verif_with_state(state, channel)` and
//! `AgentChannel::verif_with_inbound(payloads)`; the real async method runs on a current-thread tokio runtime.
//!
//! Env:
//!   C23S_CASE = JSON object, e.g.
//!     {"protocol":"keepalive","role":"client","method":"recv_keepalive_response","from":"Server","to":"Client",
//!      "exchanged":[["Server","ResponseKeepAlive"]],"kind":"err"}
//!     protocol/role/method   the agent and its async method
//!     from                   State variant the agent starts in
//!     exchanged              (state, message) exchanges that complete during the call; those whose state gives agency to
//!                            the PEER are preloaded (minicbor-encoded, one chunk each) as inbound payloads
//!     kind                   "err" | "ok" | "lemma": which outcome the class is about; only used to choose payloads ("err": payloads
//!                            that make the method reject, e.g. a different keepalive cookie; additionally one undecodable
//!                            chunk is queued after the preloaded messages so that a further receive fails instead of
//!                            waiting forever)
//!     to                     (optional) claimed final state; only used as a payload hint (e.g. blocking / non-blocking
//!                            RequestTxIds) and echoed
//!     inbound                (optional) explicit list of Message variant names to preload instead of the derived ones
//!     message                (optional) Message variant name passed to the low-level `send_message` (default: the first
//!                            specification message of state `from`)
//!     kind "lemma"           (low-level send_message / recv_message "keep the state") is judged like the others: with no
//!                            exchange listed the state must be unchanged whatever the result
//!   Without C23S_CASE a built-in list of representative cases is replayed; all must conform.
//!
//! Verdict: the test PANICS iff the observed (result, final state class) violates the rule above. A (protocol, role,
//! method) that is not wired here, an unknown state / message name, or a call that does not finish within 500 ms prints
//! `C23S unsupported ...` and passes.
//! NOTE: the rule is applied literally, also to the composite methods (keepalive_roundtrip, request_next, acquire, ...):
//! a composite that fails after its first exchange completed is reported as a violation of "Err => unchanged".
//!
//! Run (from /verif/replay):
//!   CARGO_NET_OFFLINE=true CARGO_TARGET_DIR=/verif/replay/target RUSTFLAGS="--cfg pallas_verif" \
//!     cargo test --offline --test c23s -- --nocapture
#![allow(clippy::type_complexity)]
#![allow(dead_code)]

use std::collections::{BTreeMap, BTreeSet, HashMap};
use std::time::Duration;

use pallas_codec::minicbor;
use pallas_codec::utils::AnyCbor;
use pallas_network::miniprotocols::{
    blockfetch as bf, chainsync as cs, handshake as hs, keepalive as ka, localstate as ls,
    localtxsubmission as ltx, peersharing as ps, txmonitor as tm, txsubmission as txs, Point,
};
use pallas_network::multiplexer::{AgentChannel, Payload};

const DEFAULT_SPEC: &str = "/verif/spec/n2_protocols.json";
const CALL_TIMEOUT: Duration = Duration::from_millis(500);

// ---------------------------------------------------------------------------------------------
// specification tables
// ---------------------------------------------------------------------------------------------

struct ProtoSpec {
    /// state variant name -> agency ('C', 'S' or '-')
    states: BTreeMap<String, char>,
    /// (state, message) -> admissible successors ("A|B" gives two)
    transitions: BTreeMap<(String, String), Vec<String>>,
    /// (state, message) exchanges that the API reports to its caller as an error after making the transition
    error_reporting: BTreeSet<(String, String)>,
}

fn load_spec() -> BTreeMap<String, ProtoSpec> {
    let path = std::env::var("C23S_SPEC")
        .or_else(|_| std::env::var("C23_SPEC"))
        .unwrap_or_else(|_| DEFAULT_SPEC.to_string());
    let text = std::fs::read_to_string(&path).unwrap_or_else(|e| panic!("cannot read {path}: {e}"));
    let json: serde_json::Value =
        serde_json::from_str(&text).unwrap_or_else(|e| panic!("cannot parse {path}: {e}"));
    let mut out = BTreeMap::new();
    for (key, val) in json.as_object().expect("spec: top level must be an object") {
        if key.starts_with('_') {
            continue;
        }
        let obj = val.as_object().unwrap_or_else(|| panic!("spec {key}: not an object"));
        let mut states = BTreeMap::new();
        for (s, a) in obj["states"].as_object().unwrap_or_else(|| panic!("spec {key}: states")) {
            let a = a.as_str().unwrap_or_else(|| panic!("spec {key}: agency of {s}"));
            let c = match a {
                "C" => 'C',
                "S" => 'S',
                "-" => '-',
                other => panic!("spec {key}: unknown agency {other:?} for state {s}"),
            };
            states.insert(s.clone(), c);
        }
        let mut transitions: BTreeMap<(String, String), Vec<String>> = BTreeMap::new();
        for t in obj["transitions"].as_array().unwrap_or_else(|| panic!("spec {key}: transitions")) {
            let t = t.as_array().unwrap_or_else(|| panic!("spec {key}: transition not an array"));
            assert_eq!(t.len(), 3, "spec {key}: transition must be [state, message, next]");
            let from = t[0].as_str().unwrap().to_string();
            let msg = t[1].as_str().unwrap().to_string();
            assert!(states.contains_key(&from), "spec {key}: transition from undeclared state {from}");
            let entry = transitions.entry((from, msg)).or_default();
            for next in t[2].as_str().unwrap().split('|') {
                assert!(states.contains_key(next), "spec {key}: transition to undeclared state {next}");
                if !entry.iter().any(|n| n == next) {
                    entry.push(next.to_string());
                }
            }
        }
        let mut error_reporting = BTreeSet::new();
        if let Some(list) = obj.get("error_reporting_transitions") {
            for t in list.as_array().unwrap_or_else(|| panic!("spec {key}: error_reporting_transitions")) {
                let t = t.as_array().unwrap_or_else(|| panic!("spec {key}: error_reporting entry not an array"));
                assert!(t.len() >= 2, "spec {key}: error_reporting entry must be [state, message]");
                error_reporting.insert((t[0].as_str().unwrap().to_string(), t[1].as_str().unwrap().to_string()));
            }
        }
        let module = obj.get("module").and_then(|m| m.as_str()).unwrap_or(key).to_string();
        out.insert(module, ProtoSpec { states, transitions, error_reporting });
    }
    out
}

// ---------------------------------------------------------------------------------------------
// the case and the verdict
// ---------------------------------------------------------------------------------------------

#[derive(Clone, Copy, PartialEq, Eq, Debug)]
enum Role {
    Client,
    Server,
}

impl Role {
    fn other(self) -> char {
        match self {
            Role::Client => 'S',
            Role::Server => 'C',
        }
    }
}

#[derive(Debug, Clone)]
struct Case {
    protocol: String,
    role: String,
    method: String,
    from: String,
    to: Option<String>,
    exchanged: Vec<(String, String)>,
    kind: String,
    inbound: Option<Vec<String>>,
    /// the message passed to the low-level `send_message`
    message: Option<String>,
}

impl Case {
    fn is_err(&self) -> bool {
        self.kind == "err"
    }
    fn to_is(&self, s: &str) -> bool {
        self.to.as_deref() == Some(s)
    }
    fn exchanges(&self, msg: &str) -> bool {
        self.exchanged.iter().any(|(_, m)| m == msg)
    }
    fn count(&self, msg: &str) -> usize {
        self.exchanged.iter().filter(|(_, m)| m == msg).count()
    }
    fn label(&self) -> String {
        format!(
            "{}/{}::{} from={} exchanged={:?} kind={}",
            self.protocol, self.role, self.method, self.from, self.exchanged, self.kind
        )
    }
}

fn parse_case(raw: &str) -> Result<Case, String> {
    let v: serde_json::Value =
        serde_json::from_str(raw).map_err(|e| format!("C23S_CASE is not JSON ({e}): {raw}"))?;
    let s = |k: &str| -> Result<String, String> {
        v.get(k)
            .and_then(|x| x.as_str())
            .map(|x| x.to_string())
            .ok_or_else(|| format!("C23S_CASE: missing string field {k:?}: {raw}"))
    };
    let mut exchanged = vec![];
    if let Some(list) = v.get("exchanged").and_then(|x| x.as_array()) {
        for e in list {
            let pair = e.as_array().filter(|p| p.len() >= 2).and_then(|p| Some((p[0].as_str()?, p[1].as_str()?)));
            let (st, m) = pair.ok_or_else(|| format!("C23S_CASE: exchanged entry must be [state, message]: {e}"))?;
            exchanged.push((st.to_string(), m.to_string()));
        }
    }
    let inbound = match v.get("inbound").and_then(|x| x.as_array()) {
        None => None,
        Some(l) => {
            let mut names = vec![];
            for m in l {
                names.push(m.as_str().ok_or_else(|| format!("C23S_CASE: inbound message name: {m}"))?.to_string());
            }
            Some(names)
        }
    };
    Ok(Case {
        protocol: s("protocol")?,
        role: s("role")?,
        method: s("method")?,
        from: s("from")?,
        to: v.get("to").and_then(|x| x.as_str()).map(|x| x.to_string()),
        exchanged,
        kind: v.get("kind").and_then(|x| x.as_str()).unwrap_or("ok").to_string(),
        inbound,
        message: v.get("message").and_then(|x| x.as_str()).map(|x| x.to_string()),
    })
}

fn mk_case(
    protocol: &str,
    role: &str,
    method: &str,
    from: &str,
    to: &str,
    exchanged: &[(&str, &str)],
    kind: &str,
) -> Case {
    Case {
        protocol: protocol.into(),
        role: role.into(),
        method: method.into(),
        from: from.into(),
        to: Some(to.into()),
        exchanged: exchanged.iter().map(|(s, m)| (s.to_string(), m.to_string())).collect(),
        kind: kind.into(),
        inbound: None,
        message: None,
    }
}

/// The states the specification admits after the call. Err(reason) if the claimed exchange is not a specification path.
fn admissible(spec: &ProtoSpec, case: &Case, returned_ok: bool) -> Result<Vec<String>, String> {
    if !returned_ok {
        if let Some(last) = case.exchanged.last() {
            if spec.error_reporting.contains(last) {
                return spec
                    .transitions
                    .get(last)
                    .cloned()
                    .ok_or_else(|| format!("error-reporting exchange {last:?} is not a specification transition"));
            }
        }
        return Ok(vec![case.from.clone()]);
    }
    let mut cur = vec![case.from.clone()];
    for (s, m) in &case.exchanged {
        if !cur.contains(s) {
            return Err(format!(
                "exchange ({s}, {m}) happens in state {s}, but the specification path from {} is in {cur:?} there",
                case.from
            ));
        }
        cur = spec
            .transitions
            .get(&(s.clone(), m.clone()))
            .cloned()
            .ok_or_else(|| format!("exchange ({s}, {m}) is not a specification transition"))?;
    }
    Ok(cur)
}

/// Ok(()) iff (result, observed state class) conforms.
fn judge(spec: &ProtoSpec, case: &Case, returned_ok: bool, observed: &str) -> Result<(), String> {
    let res = if returned_ok { "Ok" } else { "Err" };
    match admissible(spec, case, returned_ok) {
        Ok(adm) if adm.iter().any(|a| a == observed) => Ok(()),
        Ok(adm) => Err(format!(
            "{} returned {res} and left the agent in state {observed}; the specification prescribes {}",
            case.label(),
            adm.join("|")
        )),
        Err(why) => Err(format!(
            "{} returned {res} (state {observed}) although {why}",
            case.label()
        )),
    }
}

/// what happened when the method was called
enum Ran {
    Finished { ok: bool, err: Option<String> },
    TimedOut,
}

enum Out {
    Unsupported(String),
    Ran(Ran, &'static str),
}

/// runs `$fut` under the call timeout; only whether it is Ok / Err (and the Debug text of the error) is kept
macro_rules! t {
    ($fut:expr) => {
        match tokio::time::timeout(CALL_TIMEOUT, $fut).await {
            Ok(r) => Ran::Finished { ok: r.is_ok(), err: r.as_ref().err().map(|e| format!("{e:?}")) },
            Err(_) => Ran::TimedOut,
        }
    };
}

fn enc<M: minicbor::Encode<()>>(m: &M) -> Payload {
    minicbor::to_vec(m).expect("encoding a message")
}

/// a chunk that no Message decoder accepts and that is not a CBOR prefix (so the receive fails rather than waits)
fn garbage() -> Payload {
    vec![0xf6, 0xf6, 0xf6, 0xf6]
}

/// Names of the messages to preload: explicit `inbound`, else the messages of the exchanges made in a state whose
/// agency is the peer's.
fn inbound_names(case: &Case, spec: &ProtoSpec, role: Role) -> Vec<String> {
    if let Some(list) = &case.inbound {
        return list.clone();
    }
    let derived: Vec<String> = case
        .exchanged
        .iter()
        .filter(|(s, _)| spec.states.get(s).copied() == Some(role.other()))
        .map(|(_, m)| m.clone())
        .collect();
    // the "keeps the state" lemma on the low-level receive: let it receive the first specification message of `from`
    if derived.is_empty()
        && case.kind == "lemma"
        && case.method == "recv_message"
        && spec.states.get(&case.from).copied() == Some(role.other())
    {
        if let Some((_, m)) = spec.transitions.keys().find(|(s, _)| *s == case.from) {
            return vec![m.clone()];
        }
    }
    derived
}

fn build_inbound(
    case: &Case,
    spec: &ProtoSpec,
    role: Role,
    payload: impl Fn(&str, &Case) -> Option<Payload>,
) -> Result<Vec<Payload>, String> {
    let mut out = vec![];
    for name in inbound_names(case, spec, role) {
        out.push(payload(&name, case).ok_or_else(|| format!("unknown message {name}"))?);
    }
    if case.kind != "ok" {
        out.push(garbage());
    }
    Ok(out)
}

fn pick<T>(all: Vec<T>, namer: fn(&T) -> &'static str, name: &str) -> Option<T> {
    all.into_iter().find(|x| namer(x) == name)
}

/// Generates `fn $f(&$ty) -> &'static str` (exhaustive match: a new enum variant breaks the build) and the
/// list `$list` of all variant names. `V { .. }` patterns match unit, tuple and struct variants alike.
macro_rules! namer {
    ($f:ident, $list:ident, $ty:ident, [$($var:ident),* $(,)?]) => {
        fn $f(v: &$ty) -> &'static str {
            match v {
                $( $ty::$var { .. } => stringify!($var), )*
            }
        }
        const $list: &[&str] = &[$(stringify!($var)),*];
    };
}

// ---------------------------------------------------------------------------------------------
// per-protocol values
// ---------------------------------------------------------------------------------------------

fn pt() -> Point {
    Point::Specific(7, vec![0xab; 32])
}

fn tip() -> cs::Tip {
    cs::Tip(pt(), 3)
}

// ---- handshake ----
type HsData = hs::n2n::VersionData;
type HsState = hs::State;
type HsMsg = hs::Message<HsData>;
namer!(hs_sname, HS_STATES, HsState, [Propose, Confirm, Done]);
namer!(hs_mname, HS_MSGS, HsMsg, [Propose, Accept, Refuse, QueryReply]);

fn hs_states() -> Vec<HsState> {
    vec![HsState::Propose, HsState::Confirm, HsState::Done]
}

fn hs_data() -> HsData {
    HsData {
        network_magic: 764824073,
        initiator_only_diffusion_mode: false,
        peer_sharing: Some(0),
        query: Some(false),
    }
}

fn hs_table() -> hs::VersionTable<HsData> {
    let mut values = HashMap::new();
    values.insert(13u64, hs_data());
    hs::VersionTable { values }
}

fn hs_msgs() -> Vec<HsMsg> {
    vec![
        HsMsg::Propose(hs_table()),
        HsMsg::Accept(13, hs_data()),
        HsMsg::Refuse(hs::RefuseReason::VersionMismatch(vec![13])),
        HsMsg::QueryReply(hs_table()),
    ]
}

// ---- chainsync ----
type CsState = cs::State;
type CsMsg = cs::Message<cs::HeaderContent>;
namer!(cs_sname, CS_STATES, CsState, [Idle, CanAwait, MustReply, Intersect, Done]);
namer!(
    cs_mname,
    CS_MSGS,
    CsMsg,
    [
        RequestNext,
        AwaitReply,
        RollForward,
        RollBackward,
        FindIntersect,
        IntersectFound,
        IntersectNotFound,
        Done
    ]
);

fn cs_states() -> Vec<CsState> {
    vec![
        CsState::Idle,
        CsState::CanAwait,
        CsState::MustReply,
        CsState::Intersect,
        CsState::Done,
    ]
}

fn cs_msgs() -> Vec<CsMsg> {
    let content = cs::HeaderContent { variant: 1, byron_prefix: None, cbor: vec![0x80] };
    vec![
        CsMsg::RequestNext,
        CsMsg::AwaitReply,
        CsMsg::RollForward(content, tip()),
        CsMsg::RollBackward(pt(), tip()),
        CsMsg::FindIntersect(vec![pt(), Point::Origin]),
        CsMsg::IntersectFound(pt(), tip()),
        CsMsg::IntersectNotFound(tip()),
        CsMsg::Done,
    ]
}

// ---- blockfetch ----
type BfState = bf::State;
type BfMsg = bf::Message;
namer!(bf_sname, BF_STATES, BfState, [Idle, Busy, Streaming, Done]);
namer!(
    bf_mname,
    BF_MSGS,
    BfMsg,
    [RequestRange, ClientDone, StartBatch, NoBlocks, Block, BatchDone]
);

fn bf_states() -> Vec<BfState> {
    vec![BfState::Idle, BfState::Busy, BfState::Streaming, BfState::Done]
}

fn bf_msgs() -> Vec<BfMsg> {
    vec![
        BfMsg::RequestRange { range: (pt(), pt()) },
        BfMsg::ClientDone,
        BfMsg::StartBatch,
        BfMsg::NoBlocks,
        BfMsg::Block { body: vec![0x80] },
        BfMsg::BatchDone,
    ]
}

// ---- txsubmission ----
type TxsState = txs::State;
type TxsMsg = txs::Message<txs::EraTxId, txs::EraTxBody>;
namer!(
    txs_sname,
    TXS_STATES,
    TxsState,
    [Init, Idle, TxIdsNonBlocking, TxIdsBlocking, Txs, Done]
);
namer!(
    txs_mname,
    TXS_MSGS,
    TxsMsg,
    [Init, RequestTxIds, ReplyTxIds, RequestTxs, ReplyTxs, Done]
);

fn txs_states() -> Vec<TxsState> {
    vec![
        TxsState::Init,
        TxsState::Idle,
        TxsState::TxIdsNonBlocking,
        TxsState::TxIdsBlocking,
        TxsState::Txs,
        TxsState::Done,
    ]
}

fn txs_msgs() -> Vec<TxsMsg> {
    let id = txs::EraTxId(6, vec![0x11; 32]);
    vec![
        TxsMsg::Init,
        TxsMsg::RequestTxIds(true, 0, 1),
        TxsMsg::ReplyTxIds(vec![txs::TxIdAndSize(id.clone(), 100)]),
        TxsMsg::RequestTxs(vec![id]),
        TxsMsg::ReplyTxs(vec![txs::EraTxBody(6, vec![0x80])]),
        TxsMsg::Done,
    ]
}

// ---- keepalive ----
type KaState = ka::State;
type KaMsg = ka::Message;
namer!(ka_sname, KA_STATES, KaState, [Client, Server, Done]);
namer!(ka_mname, KA_MSGS, KaMsg, [KeepAlive, ResponseKeepAlive, Done]);

fn ka_states() -> Vec<KaState> {
    vec![KaState::Client, KaState::Server(42), KaState::Done]
}

fn ka_msgs() -> Vec<KaMsg> {
    vec![KaMsg::KeepAlive(42), KaMsg::ResponseKeepAlive(42), KaMsg::Done]
}

// ---- peersharing ----
type PsState = ps::State;
type PsMsg = ps::Message;
namer!(ps_sname, PS_STATES, PsState, [Idle, Busy, Done]);
namer!(ps_mname, PS_MSGS, PsMsg, [ShareRequest, SharePeers, Done]);

fn ps_states() -> Vec<PsState> {
    vec![PsState::Idle, PsState::Busy(1), PsState::Done]
}

fn ps_msgs() -> Vec<PsMsg> {
    vec![
        PsMsg::ShareRequest(1),
        PsMsg::SharePeers(vec![ps::PeerAddress::V4(std::net::Ipv4Addr::new(127, 0, 0, 1), 3001)]),
        PsMsg::Done,
    ]
}

// ---- localstate ----
type LsState = ls::State;
type LsMsg = ls::Message;
namer!(ls_sname, LS_STATES, LsState, [Idle, Acquiring, Acquired, Querying, Done]);
namer!(
    ls_mname,
    LS_MSGS,
    LsMsg,
    [Acquire, Failure, Acquired, Query, Result, ReAcquire, Release, Done]
);

fn ls_states() -> Vec<LsState> {
    vec![
        LsState::Idle,
        LsState::Acquiring,
        LsState::Acquired,
        LsState::Querying,
        LsState::Done,
    ]
}

fn ls_msgs() -> Vec<LsMsg> {
    vec![
        LsMsg::Acquire(Some(pt())),
        LsMsg::Failure(ls::AcquireFailure::PointTooOld),
        LsMsg::Acquired,
        LsMsg::Query(AnyCbor::from_encode(0u8)),
        LsMsg::Result(AnyCbor::from_encode(0u8)),
        LsMsg::ReAcquire(None),
        LsMsg::Release,
        LsMsg::Done,
    ]
}

// ---- localtxsubmission (types of the non-generic `Client` / `Server` aliases) ----
type LtxState = ltx::State;
type LtxMsg = ltx::Message<ltx::EraTx, ltx::TxValidationError>;
namer!(ltx_sname, LTX_STATES, LtxState, [Idle, Busy, Done]);
namer!(ltx_mname, LTX_MSGS, LtxMsg, [SubmitTx, AcceptTx, RejectTx, Done]);

fn ltx_states() -> Vec<LtxState> {
    vec![LtxState::Idle, LtxState::Busy, LtxState::Done]
}

fn ltx_msgs() -> Vec<LtxMsg> {
    vec![
        LtxMsg::SubmitTx(ltx::EraTx(6, vec![0x80])),
        LtxMsg::AcceptTx,
        LtxMsg::RejectTx(ltx::TxValidationError::Plutus("rejected".to_string())),
        LtxMsg::Done,
    ]
}

// ---- txmonitor (client only) ----
type TmState = tm::State;
type TmMsg = tm::Message;
namer!(tm_sname, TM_STATES, TmState, [Idle, Acquiring, Acquired, Busy, Done]);
namer!(
    tm_mname,
    TM_MSGS,
    TmMsg,
    [
        Acquire,
        AwaitAcquire,
        Acquired,
        RequestHasTx,
        RequestNextTx,
        RequestSizeAndCapacity,
        ResponseHasTx,
        ResponseNextTx,
        ResponseSizeAndCapacity,
        Release,
        Done
    ]
);

fn tm_states() -> Vec<TmState> {
    vec![
        TmState::Idle,
        TmState::Acquiring,
        TmState::Acquired,
        TmState::Busy,
        TmState::Done,
    ]
}

fn tm_msgs() -> Vec<TmMsg> {
    vec![
        TmMsg::Acquire,
        TmMsg::AwaitAcquire,
        TmMsg::Acquired(7),
        TmMsg::RequestHasTx("00".repeat(32)),
        TmMsg::RequestNextTx,
        TmMsg::RequestSizeAndCapacity,
        TmMsg::ResponseHasTx(true),
        TmMsg::ResponseNextTx(None),
        TmMsg::ResponseSizeAndCapacity(tm::MempoolSizeAndCapacity {
            capacity_in_bytes: 1000,
            size_in_bytes: 10,
            number_of_txs: 1,
        }),
        TmMsg::Release,
        TmMsg::Done,
    ]
}

// ---------------------------------------------------------------------------------------------
// case-dependent payloads
// ---------------------------------------------------------------------------------------------

/// message used by the low-level `send_message` replay: `message` of the case, else the first specification message
/// of state `from`, else the first Message variant
fn low_level_msg_name(c: &Case, spec: &ProtoSpec, all: &[&str]) -> String {
    c.message
        .clone()
        .or_else(|| spec.transitions.keys().find(|(s, _)| *s == c.from).map(|(_, m)| m.clone()))
        .unwrap_or_else(|| all[0].to_string())
}

fn hs_msg(name: &str, _c: &Case) -> Option<HsMsg> {
    pick(hs_msgs(), hs_mname, name)
}

fn cs_msg(name: &str, _c: &Case) -> Option<CsMsg> {
    pick(cs_msgs(), cs_mname, name)
}

fn bf_msg(name: &str, _c: &Case) -> Option<BfMsg> {
    pick(bf_msgs(), bf_mname, name)
}

fn txs_msg(name: &str, c: &Case) -> Option<TxsMsg> {
    Some(match pick(txs_msgs(), txs_mname, name)? {
        // blocking unless the class ends in / passes through TxIdsNonBlocking
        TxsMsg::RequestTxIds(_, a, b) => TxsMsg::RequestTxIds(!txs_non_blocking(c), a, b),
        m => m,
    })
}

fn txs_non_blocking(c: &Case) -> bool {
    c.to_is("TxIdsNonBlocking") || c.exchanged.iter().any(|(s, _)| s == "TxIdsNonBlocking")
}

/// the cookie of state `Server(..)`
const KA_COOKIE: ka::Cookie = 42;

fn ka_msg(name: &str, c: &Case) -> Option<KaMsg> {
    Some(match pick(ka_msgs(), ka_mname, name)? {
        // the known counterexample class: the peer answers with a cookie that was not the one sent
        KaMsg::ResponseKeepAlive(_) if c.is_err() => KaMsg::ResponseKeepAlive(KA_COOKIE + 1),
        KaMsg::ResponseKeepAlive(_) => KaMsg::ResponseKeepAlive(KA_COOKIE),
        KaMsg::KeepAlive(_) => KaMsg::KeepAlive(KA_COOKIE),
        m => m,
    })
}

fn ps_msg(name: &str, c: &Case) -> Option<PsMsg> {
    Some(match pick(ps_msgs(), ps_mname, name)? {
        // more addresses than the `Busy(1)` state asked for
        PsMsg::SharePeers(v) if c.is_err() => {
            PsMsg::SharePeers(vec![v[0].clone(), v[0].clone(), v[0].clone()])
        }
        m => m,
    })
}

fn ls_msg(name: &str, _c: &Case) -> Option<LsMsg> {
    pick(ls_msgs(), ls_mname, name)
}

fn ltx_msg(name: &str, _c: &Case) -> Option<LtxMsg> {
    pick(ltx_msgs(), ltx_mname, name)
}

/// a rejection that the crate can encode (`Encode for TxValidationError` is `todo!()` for the other two variants)
fn ltx_rejection() -> ltx::TxValidationError {
    ltx::TxValidationError::ShelleyTxValidationError {
        error: ltx::ApplyTxError(vec![]),
        era: ltx::ShelleyBasedEra::Conway,
    }
}

/// RejectTx as a node sends it, `[2, [[era, [failures..]]]]`: the crate's encoder writes `[2, [era, failures]]`, which
/// its own decoder does not read back, so the inbound chunk is written by hand
fn ltx_payload(name: &str, c: &Case) -> Option<Payload> {
    if name == "RejectTx" {
        return Some(vec![0x82, 0x02, 0x81, 0x82, 0x06, 0x80]);
    }
    ltx_msg(name, c).map(|m| enc(&m))
}

/// `$f(name, case)`: the encoded message `$mk(name, case)`
macro_rules! payload_fn {
    ($f:ident, $mk:ident) => {
        fn $f(name: &str, c: &Case) -> Option<Payload> {
            $mk(name, c).map(|m| enc(&m))
        }
    };
}
payload_fn!(hs_payload, hs_msg);
payload_fn!(cs_payload, cs_msg);
payload_fn!(bf_payload, bf_msg);
payload_fn!(txs_payload, txs_msg);
payload_fn!(ka_payload, ka_msg);
payload_fn!(ps_payload, ps_msg);
payload_fn!(ls_payload, ls_msg);
payload_fn!(tm_payload, tm_msg);

fn tm_msg(name: &str, _c: &Case) -> Option<TmMsg> {
    pick(tm_msgs(), tm_mname, name)
}

// ---------------------------------------------------------------------------------------------
// the agents
// ---------------------------------------------------------------------------------------------

/// builds the agent of type `$ty` in state `from` over a channel holding the inbound payloads of the case
macro_rules! agent {
    ($ty:ty, $states:ident, $sname:ident, $mk:ident, $c:expr, $spec:expr, $role:expr) => {{
        let Some(st) = pick($states(), $sname, &$c.from) else {
            return Out::Unsupported(format!("unknown state {}", $c.from));
        };
        let inbound = match build_inbound($c, $spec, $role, $mk) {
            Ok(v) => v,
            Err(e) => return Out::Unsupported(e),
        };
        <$ty>::verif_with_state(st, AgentChannel::verif_with_inbound(inbound))
    }};
}

/// the message for the low-level `send_message`
macro_rules! low_msg {
    ($mk:ident, $all:ident, $c:expr, $spec:expr) => {{
        let name = low_level_msg_name($c, $spec, $all);
        match $mk(&name, $c) {
            Some(m) => m,
            None => return Out::Unsupported(format!("unknown message {name}")),
        }
    }};
}

fn no_method(c: &Case) -> Out {
    Out::Unsupported(format!("method {}/{}::{} is not wired", c.protocol, c.role, c.method))
}

// ---- handshake ----

async fn hs_client(c: &Case, spec: &ProtoSpec) -> Out {
    let mut a = agent!(hs::Client<HsData>, hs_states, hs_sname, hs_payload, c, spec, Role::Client);
    let ran = match c.method.as_str() {
        "send_propose" => t!(a.send_propose(hs_table())),
        "recv_while_confirm" => t!(a.recv_while_confirm()),
        "handshake" => t!(a.handshake(hs_table())),
        "recv_message" => t!(a.recv_message()),
        "send_message" => {
            let m = low_msg!(hs_msg, HS_MSGS, c, spec);
            t!(a.send_message(&m))
        }
        _ => return no_method(c),
    };
    Out::Ran(ran, hs_sname(a.state()))
}

async fn hs_server(c: &Case, spec: &ProtoSpec) -> Out {
    let mut a = agent!(hs::Server<HsData>, hs_states, hs_sname, hs_payload, c, spec, Role::Server);
    let ran = match c.method.as_str() {
        "receive_proposed_versions" => t!(a.receive_proposed_versions()),
        "accept_version" => t!(a.accept_version(13, hs_data())),
        "refuse" => t!(a.refuse(hs::RefuseReason::VersionMismatch(vec![13]))),
        "handshake" => {
            // the preloaded proposal offers version 13: a table without it makes the server refuse
            let table = if c.exchanges("Refuse") {
                let mut values = HashMap::new();
                values.insert(14u64, hs_data());
                hs::VersionTable { values }
            } else {
                hs_table()
            };
            t!(a.handshake(table))
        }
        "recv_message" => t!(a.recv_message()),
        "send_message" => {
            let m = low_msg!(hs_msg, HS_MSGS, c, spec);
            t!(a.send_message(&m))
        }
        _ => return no_method(c),
    };
    Out::Ran(ran, hs_sname(a.state()))
}

// ---- chainsync ----

fn cs_content() -> cs::HeaderContent {
    cs::HeaderContent { variant: 1, byron_prefix: None, cbor: vec![0x80] }
}

async fn cs_client(c: &Case, spec: &ProtoSpec) -> Out {
    let mut a = agent!(cs::Client<cs::HeaderContent>, cs_states, cs_sname, cs_payload, c, spec, Role::Client);
    let ran = match c.method.as_str() {
        "send_find_intersect" => t!(a.send_find_intersect(vec![pt(), Point::Origin])),
        "recv_intersect_response" => t!(a.recv_intersect_response()),
        "find_intersect" => t!(a.find_intersect(vec![pt(), Point::Origin])),
        "send_request_next" => t!(a.send_request_next()),
        "recv_while_can_await" => t!(a.recv_while_can_await()),
        "recv_while_must_reply" => t!(a.recv_while_must_reply()),
        "request_next" => t!(a.request_next()),
        "request_or_await_next" => t!(a.request_or_await_next()),
        "intersect_origin" => t!(a.intersect_origin()),
        "intersect_tip" => t!(a.intersect_tip()),
        "send_done" => t!(a.send_done()),
        "recv_message" => t!(a.recv_message()),
        "send_message" => {
            let m = low_msg!(cs_msg, CS_MSGS, c, spec);
            t!(a.send_message(&m))
        }
        _ => return no_method(c),
    };
    Out::Ran(ran, cs_sname(a.state()))
}

async fn cs_server(c: &Case, spec: &ProtoSpec) -> Out {
    let mut a = agent!(cs::Server<cs::HeaderContent>, cs_states, cs_sname, cs_payload, c, spec, Role::Server);
    let ran = match c.method.as_str() {
        "recv_while_idle" => t!(a.recv_while_idle()),
        "send_intersect_not_found" => t!(a.send_intersect_not_found(tip())),
        "send_intersect_found" => t!(a.send_intersect_found(pt(), tip())),
        "send_roll_forward" => t!(a.send_roll_forward(cs_content(), tip())),
        "send_roll_backward" => t!(a.send_roll_backward(pt(), tip())),
        "send_await_reply" => t!(a.send_await_reply()),
        // recv_message is private on this agent
        "send_message" => {
            let m = low_msg!(cs_msg, CS_MSGS, c, spec);
            t!(a.send_message(&m))
        }
        _ => return no_method(c),
    };
    Out::Ran(ran, cs_sname(a.state()))
}

// ---- blockfetch ----

async fn bf_client(c: &Case, spec: &ProtoSpec) -> Out {
    let mut a = agent!(bf::Client, bf_states, bf_sname, bf_payload, c, spec, Role::Client);
    let ran = match c.method.as_str() {
        "send_request_range" => t!(a.send_request_range((pt(), pt()))),
        "recv_while_busy" => t!(a.recv_while_busy()),
        "request_range" => t!(a.request_range((pt(), pt()))),
        "recv_while_streaming" => t!(a.recv_while_streaming()),
        "fetch_single" => t!(a.fetch_single(pt())),
        "fetch_range" => t!(a.fetch_range((pt(), pt()))),
        "send_done" => t!(a.send_done()),
        "recv_message" => t!(a.recv_message()),
        "send_message" => {
            let m = low_msg!(bf_msg, BF_MSGS, c, spec);
            t!(a.send_message(&m))
        }
        _ => return no_method(c),
    };
    Out::Ran(ran, bf_sname(a.state()))
}

async fn bf_server(c: &Case, spec: &ProtoSpec) -> Out {
    let mut a = agent!(bf::Server, bf_states, bf_sname, bf_payload, c, spec, Role::Server);
    let ran = match c.method.as_str() {
        "send_start_batch" => t!(a.send_start_batch()),
        "send_no_blocks" => t!(a.send_no_blocks()),
        "send_block" => t!(a.send_block(vec![0x80])),
        "send_batch_done" => t!(a.send_batch_done()),
        "recv_while_idle" => t!(a.recv_while_idle()),
        "send_block_range" => {
            // as many blocks as the class exchanges (at least one if it starts a batch)
            let mut n = c.count("Block");
            if n == 0 && (c.exchanges("StartBatch") || c.exchanges("BatchDone")) {
                n = 1;
            }
            t!(a.send_block_range(vec![vec![0x80]; n]))
        }
        "recv_message" => t!(a.recv_message()),
        "send_message" => {
            let m = low_msg!(bf_msg, BF_MSGS, c, spec);
            t!(a.send_message(&m))
        }
        _ => return no_method(c),
    };
    Out::Ran(ran, bf_sname(a.state()))
}

// ---- txsubmission ----

async fn txs_client(c: &Case, spec: &ProtoSpec) -> Out {
    let mut a = agent!(txs::Client, txs_states, txs_sname, txs_payload, c, spec, Role::Client);
    let ran = match c.method.as_str() {
        "send_init" => t!(a.send_init()),
        "reply_tx_ids" => t!(a.reply_tx_ids(vec![])),
        "reply_txs" => t!(a.reply_txs(vec![])),
        "next_request" => t!(a.next_request()),
        "send_done" => t!(a.send_done()),
        "recv_message" => t!(a.recv_message()),
        "send_message" => {
            let m = low_msg!(txs_msg, TXS_MSGS, c, spec);
            t!(a.send_message(&m))
        }
        _ => return no_method(c),
    };
    Out::Ran(ran, txs_sname(a.state()))
}

async fn txs_server(c: &Case, spec: &ProtoSpec) -> Out {
    let mut a = agent!(txs::Server, txs_states, txs_sname, txs_payload, c, spec, Role::Server);
    let ran = match c.method.as_str() {
        "wait_for_init" => t!(a.wait_for_init()),
        "acknowledge_and_request_tx_ids" => {
            t!(a.acknowledge_and_request_tx_ids(!txs_non_blocking(c), 0, 1))
        }
        "request_txs" => t!(a.request_txs(vec![])),
        "receive_next_reply" => t!(a.receive_next_reply()),
        "recv_message" => t!(a.recv_message()),
        "send_message" => {
            let m = low_msg!(txs_msg, TXS_MSGS, c, spec);
            t!(a.send_message(&m))
        }
        _ => return no_method(c),
    };
    Out::Ran(ran, txs_sname(a.state()))
}

// ---- keepalive ----

async fn ka_client(c: &Case, spec: &ProtoSpec) -> Out {
    let mut a = agent!(ka::Client, ka_states, ka_sname, ka_payload, c, spec, Role::Client);
    let ran = match c.method.as_str() {
        "send_keepalive_request" => t!(a.send_keepalive_request()),
        "recv_keepalive_response" => t!(a.recv_keepalive_response()),
        // (the request carries a random cookie, so the preloaded response can match it only by chance)
        "keepalive_roundtrip" => t!(a.keepalive_roundtrip()),
        "recv_message" => t!(a.recv_message()),
        "send_message" => {
            let m = low_msg!(ka_msg, KA_MSGS, c, spec);
            t!(a.send_message(&m))
        }
        _ => return no_method(c),
    };
    Out::Ran(ran, ka_sname(a.state()))
}

async fn ka_server(c: &Case, spec: &ProtoSpec) -> Out {
    let mut a = agent!(ka::Server, ka_states, ka_sname, ka_payload, c, spec, Role::Server);
    let ran = match c.method.as_str() {
        "recv_keepalive_request" => t!(a.recv_keepalive_request()),
        "send_keepalive_response" => t!(a.send_keepalive_response()),
        "keepalive_roundtrip" => t!(a.keepalive_roundtrip()),
        "recv_message" => t!(a.recv_message()),
        "send_message" => {
            let m = low_msg!(ka_msg, KA_MSGS, c, spec);
            t!(a.send_message(&m))
        }
        _ => return no_method(c),
    };
    Out::Ran(ran, ka_sname(a.state()))
}

// ---- peersharing ----

async fn ps_client(c: &Case, spec: &ProtoSpec) -> Out {
    let mut a = agent!(ps::Client, ps_states, ps_sname, ps_payload, c, spec, Role::Client);
    let ran = match c.method.as_str() {
        "send_share_request" => t!(a.send_share_request(1)),
        "recv_peer_addresses" => t!(a.recv_peer_addresses()),
        "send_done" => t!(a.send_done()),
        "recv_message" => t!(a.recv_message()),
        "send_message" => {
            let m = low_msg!(ps_msg, PS_MSGS, c, spec);
            t!(a.send_message(&m))
        }
        _ => return no_method(c),
    };
    Out::Ran(ran, ps_sname(a.state()))
}

async fn ps_server(c: &Case, spec: &ProtoSpec) -> Out {
    let mut a = agent!(ps::Server, ps_states, ps_sname, ps_payload, c, spec, Role::Server);
    let ran = match c.method.as_str() {
        "recv_share_request" => t!(a.recv_share_request()),
        "send_peer_addresses" => t!(a.send_peer_addresses(vec![])),
        "recv_message" => t!(a.recv_message()),
        "send_message" => {
            let m = low_msg!(ps_msg, PS_MSGS, c, spec);
            t!(a.send_message(&m))
        }
        _ => return no_method(c),
    };
    Out::Ran(ran, ps_sname(a.state()))
}

// ---- localstate ----

async fn ls_client(c: &Case, spec: &ProtoSpec) -> Out {
    let mut a = agent!(ls::Client, ls_states, ls_sname, ls_payload, c, spec, Role::Client);
    let ran = match c.method.as_str() {
        "send_acquire" => t!(a.send_acquire(Some(pt()))),
        "send_reacquire" => t!(a.send_reacquire(None)),
        "send_release" => t!(a.send_release()),
        "send_done" => t!(a.send_done()),
        "recv_while_acquiring" => t!(a.recv_while_acquiring()),
        "acquire" => t!(a.acquire(Some(pt()))),
        "send_query" => t!(a.send_query(AnyCbor::from_encode(0u8))),
        "recv_while_querying" => t!(a.recv_while_querying()),
        "query_any" => t!(a.query_any(AnyCbor::from_encode(0u8))),
        // the preloaded Result carries the CBOR of 0u8: decodable as u8, not as a String ("err": reject)
        "query" if c.is_err() => t!(a.query::<u8, String>(0u8)),
        "query" => t!(a.query::<u8, u8>(0u8)),
        "recv_message" => t!(a.recv_message()),
        "send_message" => {
            let m = low_msg!(ls_msg, LS_MSGS, c, spec);
            t!(a.send_message(&m))
        }
        _ => return no_method(c),
    };
    Out::Ran(ran, ls_sname(a.state()))
}

async fn ls_server(c: &Case, spec: &ProtoSpec) -> Out {
    let mut a = agent!(ls::Server, ls_states, ls_sname, ls_payload, c, spec, Role::Server);
    let ran = match c.method.as_str() {
        "send_failure" => t!(a.send_failure(ls::AcquireFailure::PointTooOld)),
        "send_acquired" => t!(a.send_acquired()),
        "send_result" => t!(a.send_result(AnyCbor::from_encode(0u8))),
        "recv_while_idle" => t!(a.recv_while_idle()),
        "recv_while_acquired" => t!(a.recv_while_acquired()),
        "recv_message" => t!(a.recv_message()),
        "send_message" => {
            let m = low_msg!(ls_msg, LS_MSGS, c, spec);
            t!(a.send_message(&m))
        }
        _ => return no_method(c),
    };
    Out::Ran(ran, ls_sname(a.state()))
}

// ---- localtxsubmission (send_message / recv_message are private on these agents) ----

fn ltx_tx() -> ltx::EraTx {
    ltx::EraTx(6, vec![0x80])
}

async fn ltx_client(c: &Case, spec: &ProtoSpec) -> Out {
    let mut a = agent!(ltx::Client, ltx_states, ltx_sname, ltx_payload, c, spec, Role::Client);
    let ran = match c.method.as_str() {
        "submit_tx" => t!(a.submit_tx(ltx_tx())),
        "terminate_gracefully" => t!(a.terminate_gracefully()),
        "send_submit_tx" => t!(a.send_submit_tx(ltx_tx())),
        "recv_submit_tx_response" => t!(a.recv_submit_tx_response()),
        _ => return no_method(c),
    };
    Out::Ran(ran, ltx_sname(a.state()))
}

async fn ltx_server(c: &Case, spec: &ProtoSpec) -> Out {
    let mut a = agent!(ltx::Server, ltx_states, ltx_sname, ltx_payload, c, spec, Role::Server);
    let ran = match c.method.as_str() {
        "send_submit_tx_response" => {
            let resp = if c.exchanges("RejectTx") {
                ltx::Response::Rejected(ltx_rejection())
            } else {
                ltx::Response::Accepted
            };
            t!(a.send_submit_tx_response(resp))
        }
        "recv_next_request" => t!(a.recv_next_request()),
        _ => return no_method(c),
    };
    Out::Ran(ran, ltx_sname(a.state()))
}

// ---- txmonitor (client only) ----

async fn tm_client(c: &Case, spec: &ProtoSpec) -> Out {
    let mut a = agent!(tm::Client, tm_states, tm_sname, tm_payload, c, spec, Role::Client);
    let ran = match c.method.as_str() {
        "acquire" => t!(a.acquire()),
        "query_has_tx" => t!(a.query_has_tx("00".repeat(32))),
        "query_next_tx" => t!(a.query_next_tx()),
        "query_size_and_capacity" => t!(a.query_size_and_capacity()),
        "release" => t!(a.release()),
        "recv_message" => t!(a.recv_message()),
        "send_message" => {
            let m = low_msg!(tm_msg, TM_MSGS, c, spec);
            t!(a.send_message(&m))
        }
        _ => return no_method(c),
    };
    Out::Ran(ran, tm_sname(a.state()))
}

/// every (protocol, role, method) wired above
const SUPPORTED: &[(&str, &str, &[&str])] = &[
    ("handshake", "client", &["send_propose", "recv_while_confirm", "handshake", "send_message", "recv_message"]),
    ("handshake", "server", &["receive_proposed_versions", "accept_version", "refuse", "handshake", "send_message", "recv_message"]),
    ("chainsync", "client", &["send_find_intersect", "recv_intersect_response", "find_intersect", "send_request_next",
        "recv_while_can_await", "recv_while_must_reply", "request_next", "request_or_await_next", "intersect_origin",
        "intersect_tip", "send_done", "send_message", "recv_message"]),
    ("chainsync", "server", &["recv_while_idle", "send_intersect_not_found", "send_intersect_found", "send_roll_forward",
        "send_roll_backward", "send_await_reply", "send_message"]),
    ("blockfetch", "client", &["send_request_range", "recv_while_busy", "request_range", "recv_while_streaming",
        "fetch_single", "fetch_range", "send_done", "send_message", "recv_message"]),
    ("blockfetch", "server", &["send_start_batch", "send_no_blocks", "send_block", "send_batch_done", "recv_while_idle",
        "send_block_range", "send_message", "recv_message"]),
    ("txsubmission", "client", &["send_init", "reply_tx_ids", "reply_txs", "next_request", "send_done", "send_message", "recv_message"]),
    ("txsubmission", "server", &["wait_for_init", "acknowledge_and_request_tx_ids", "request_txs", "receive_next_reply",
        "send_message", "recv_message"]),
    ("keepalive", "client", &["send_keepalive_request", "recv_keepalive_response", "keepalive_roundtrip", "send_message", "recv_message"]),
    ("keepalive", "server", &["recv_keepalive_request", "send_keepalive_response", "keepalive_roundtrip", "send_message", "recv_message"]),
    ("peersharing", "client", &["send_share_request", "recv_peer_addresses", "send_done", "send_message", "recv_message"]),
    ("peersharing", "server", &["recv_share_request", "send_peer_addresses", "send_message", "recv_message"]),
    ("localstate", "client", &["send_acquire", "send_reacquire", "send_release", "send_done", "recv_while_acquiring", "acquire",
        "send_query", "recv_while_querying", "query_any", "query", "send_message", "recv_message"]),
    ("localstate", "server", &["send_failure", "send_acquired", "send_result", "recv_while_idle", "recv_while_acquired",
        "send_message", "recv_message"]),
    ("localtxsubmission", "client", &["submit_tx", "terminate_gracefully", "send_submit_tx", "recv_submit_tx_response"]),
    ("localtxsubmission", "server", &["send_submit_tx_response", "recv_next_request"]),
    ("txmonitor", "client", &["acquire", "query_has_tx", "query_next_tx", "query_size_and_capacity", "release", "send_message", "recv_message"]),
];

async fn dispatch(c: &Case, spec: &BTreeMap<String, ProtoSpec>) -> Out {
    let Some(sp) = spec.get(&c.protocol) else {
        return Out::Unsupported(format!("protocol {} is not in the specification file", c.protocol));
    };
    if !sp.states.contains_key(&c.from) {
        return Out::Unsupported(format!("state {} is not a state of {}", c.from, c.protocol));
    }
    match (c.protocol.as_str(), c.role.as_str()) {
        ("handshake", "client") => hs_client(c, sp).await,
        ("handshake", "server") => hs_server(c, sp).await,
        ("chainsync", "client") => cs_client(c, sp).await,
        ("chainsync", "server") => cs_server(c, sp).await,
        ("blockfetch", "client") => bf_client(c, sp).await,
        ("blockfetch", "server") => bf_server(c, sp).await,
        ("txsubmission", "client") => txs_client(c, sp).await,
        ("txsubmission", "server") => txs_server(c, sp).await,
        ("keepalive", "client") => ka_client(c, sp).await,
        ("keepalive", "server") => ka_server(c, sp).await,
        ("peersharing", "client") => ps_client(c, sp).await,
        ("peersharing", "server") => ps_server(c, sp).await,
        ("localstate", "client") => ls_client(c, sp).await,
        ("localstate", "server") => ls_server(c, sp).await,
        ("localtxsubmission", "client") => ltx_client(c, sp).await,
        ("localtxsubmission", "server") => ltx_server(c, sp).await,
        ("txmonitor", "client") => tm_client(c, sp).await,
        _ => Out::Unsupported(format!("agent {}/{} is not wired", c.protocol, c.role)),
    }
}

/// what replaying one case gave
#[derive(Debug, PartialEq, Eq)]
enum Verdict {
    Conforms,
    Violates(String),
    Unsupported,
}

fn replay(rt: &tokio::runtime::Runtime, c: &Case, spec: &BTreeMap<String, ProtoSpec>) -> Verdict {
    println!("C23S case: {} (claimed to={})", c.label(), c.to.as_deref().unwrap_or("?"));
    match rt.block_on(dispatch(c, spec)) {
        Out::Unsupported(why) => {
            println!("C23S unsupported: {why}");
            Verdict::Unsupported
        }
        Out::Ran(Ran::TimedOut, state) => {
            println!(
                "C23S unsupported: {}/{}::{} did not finish within {} ms (state now {state}; it waits for a message the case does not provide)",
                c.protocol,
                c.role,
                c.method,
                CALL_TIMEOUT.as_millis()
            );
            Verdict::Unsupported
        }
        Out::Ran(Ran::Finished { ok, err }, state) => {
            println!("C23S observed: result={} state={state}", if ok { "Ok" } else { "Err" });
            if let Some(e) = err {
                println!("C23S error value: {e}");
            }
            match judge(&spec[&c.protocol], c, ok, state) {
                Ok(()) => {
                    println!("C23S conforms");
                    Verdict::Conforms
                }
                Err(why) => {
                    println!("C23S VIOLATION: {why}");
                    Verdict::Violates(why)
                }
            }
        }
    }
}

/// representative classes; all conform on the unmodified tree
fn builtin_cases() -> Vec<Case> {
    vec![
        // the known class: response with a cookie that was not sent -> Err, the client stays in Server
        mk_case("keepalive", "client", "recv_keepalive_response", "Server", "Client", &[("Server", "ResponseKeepAlive")], "err"),
        mk_case("keepalive", "client", "recv_keepalive_response", "Server", "Client", &[("Server", "ResponseKeepAlive")], "ok"),
        mk_case("keepalive", "client", "send_keepalive_request", "Client", "Server", &[("Client", "KeepAlive")], "ok"),
        mk_case("keepalive", "server", "recv_keepalive_request", "Client", "Server", &[("Client", "KeepAlive")], "ok"),
        mk_case("keepalive", "server", "send_keepalive_response", "Client", "Client", &[], "ok"),
        mk_case("handshake", "client", "recv_while_confirm", "Confirm", "Done", &[("Confirm", "Accept")], "ok"),
        mk_case("handshake", "server", "receive_proposed_versions", "Propose", "Confirm", &[("Propose", "Propose")], "ok"),
        mk_case("handshake", "server", "accept_version", "Propose", "Propose", &[], "err"),
        mk_case("chainsync", "client", "recv_while_can_await", "CanAwait", "MustReply", &[("CanAwait", "AwaitReply")], "ok"),
        mk_case("chainsync", "client", "send_request_next", "CanAwait", "CanAwait", &[], "err"),
        mk_case("chainsync", "client", "recv_intersect_response", "Intersect", "Intersect", &[], "err"),
        mk_case("chainsync", "server", "recv_while_idle", "Idle", "Intersect", &[("Idle", "FindIntersect")], "ok"),
        mk_case("chainsync", "server", "send_roll_forward", "MustReply", "Idle", &[("MustReply", "RollForward")], "ok"),
        mk_case("blockfetch", "client", "recv_while_streaming", "Streaming", "Streaming", &[("Streaming", "Block")], "ok"),
        mk_case("blockfetch", "server", "recv_while_idle", "Idle", "Busy", &[("Idle", "RequestRange")], "ok"),
        mk_case("txsubmission", "client", "next_request", "Idle", "TxIdsNonBlocking", &[("Idle", "RequestTxIds")], "ok"),
        mk_case("txsubmission", "server", "wait_for_init", "Idle", "Idle", &[], "err"),
        mk_case("txsubmission", "server", "receive_next_reply", "TxIdsBlocking", "Done", &[("TxIdsBlocking", "Done")], "ok"),
        mk_case("peersharing", "client", "recv_peer_addresses", "Busy", "Idle", &[("Busy", "SharePeers")], "ok"),
        mk_case("peersharing", "server", "recv_share_request", "Idle", "Busy", &[("Idle", "ShareRequest")], "ok"),
        // MsgFailure is an error-reporting transition: Err, but the state moves to the specification successor Idle
        mk_case("localstate", "client", "recv_while_acquiring", "Acquiring", "Idle", &[("Acquiring", "Failure")], "err"),
        mk_case("localstate", "server", "recv_while_acquired", "Acquired", "Querying", &[("Acquired", "Query")], "ok"),
        mk_case("localtxsubmission", "client", "recv_submit_tx_response", "Busy", "Idle", &[("Busy", "RejectTx")], "ok"),
        mk_case("localtxsubmission", "server", "recv_next_request", "Idle", "Done", &[("Idle", "Done")], "ok"),
        mk_case("txmonitor", "client", "release", "Acquired", "Idle", &[("Acquired", "Release")], "ok"),
        mk_case("txmonitor", "client", "acquire", "Idle", "Acquired", &[("Idle", "Acquire"), ("Acquiring", "Acquired")], "ok"),
    ]
}

/// every preloadable payload must decode to the message the case names
fn roundtrip_problems() -> Vec<String> {
    fn check<M>(
        proto: &str,
        names: &[&str],
        payload: fn(&str, &Case) -> Option<Payload>,
        name: fn(&M) -> &'static str,
        out: &mut Vec<String>,
    ) where
        M: for<'b> minicbor::Decode<'b, ()>,
    {
        for kind in ["ok", "err"] {
            let c = mk_case(proto, "client", "-", "-", "-", &[], kind);
            for n in names {
                let Some(bytes) = payload(n, &c) else {
                    out.push(format!("{proto}: {n} has no payload"));
                    continue;
                };
                match minicbor::decode::<M>(&bytes) {
                    Ok(back) if name(&back) == *n => {}
                    Ok(back) => out.push(format!("{proto}: {n} decodes as {}", name(&back))),
                    Err(e) => out.push(format!("{proto}: {n} does not decode: {e}")),
                }
            }
            if minicbor::decode::<M>(&garbage()).is_ok() {
                out.push(format!("{proto}: the undecodable chunk decodes"));
            }
        }
    }
    let mut out = vec![];
    check::<HsMsg>("handshake", HS_MSGS, hs_payload, hs_mname, &mut out);
    check::<CsMsg>("chainsync", CS_MSGS, cs_payload, cs_mname, &mut out);
    check::<BfMsg>("blockfetch", BF_MSGS, bf_payload, bf_mname, &mut out);
    check::<TxsMsg>("txsubmission", TXS_MSGS, txs_payload, txs_mname, &mut out);
    check::<KaMsg>("keepalive", KA_MSGS, ka_payload, ka_mname, &mut out);
    check::<PsMsg>("peersharing", PS_MSGS, ps_payload, ps_mname, &mut out);
    check::<LsMsg>("localstate", LS_MSGS, ls_payload, ls_mname, &mut out);
    check::<LtxMsg>("localtxsubmission", LTX_MSGS, ltx_payload, ltx_mname, &mut out);
    check::<TmMsg>("txmonitor", TM_MSGS, tm_payload, tm_mname, &mut out);
    out
}

// ---------------------------------------------------------------------------------------------
// the test
// ---------------------------------------------------------------------------------------------

#[test]
fn c23s_case() {
    let spec = load_spec();
    let rt = tokio::runtime::Builder::new_current_thread()
        .enable_all()
        .build()
        .expect("tokio runtime");

    let raw = std::env::var("C23S_CASE").ok().filter(|r| !r.trim().is_empty());
    if let Some(raw) = raw {
        match parse_case(raw.trim()) {
            Err(why) => println!("C23S unsupported: {why}"),
            Ok(case) => {
                if let Verdict::Violates(why) = replay(&rt, &case, &spec) {
                    panic!("C23S: {why}");
                }
            }
        }
        return;
    }

    // ---- built-in run -------------------------------------------------------------------------
    let nmethods: usize = SUPPORTED.iter().map(|(_, _, m)| m.len()).sum();
    println!("C23S supported: {} agents, {nmethods} (protocol, role, method) triples", SUPPORTED.len());
    for (p, r, ms) in SUPPORTED {
        println!("C23S supported: {p}/{r}: {}", ms.join(" "));
    }

    let mut problems: Vec<String> = vec![];

    for p in roundtrip_problems() {
        problems.push(format!("inbound payload does not round-trip: {p}"));
    }

    // the verdict function itself must be able to fail (pure self-check, nothing is run)
    {
        let ka_spec = &spec["keepalive"];
        let mismatch = &builtin_cases()[0];
        assert!(judge(ka_spec, mismatch, false, "Server").is_ok());
        assert!(judge(ka_spec, mismatch, false, "Client").is_err(), "Err with a changed state must be a violation");
        assert!(judge(ka_spec, mismatch, true, "Client").is_ok());
        assert!(judge(ka_spec, mismatch, true, "Server").is_err(), "Ok without the specification transition must be a violation");
        assert!(judge(ka_spec, mismatch, true, "Done").is_err());
        let ls_spec = &spec["localstate"];
        let failure = mk_case("localstate", "client", "recv_while_acquiring", "Acquiring", "Idle", &[("Acquiring", "Failure")], "err");
        assert!(judge(ls_spec, &failure, false, "Idle").is_ok());
        assert!(judge(ls_spec, &failure, false, "Acquiring").is_err(), "error-reporting transition must be made");
        let txs_spec = &spec["txsubmission"];
        let either = mk_case("txsubmission", "client", "next_request", "Idle", "TxIdsBlocking", &[("Idle", "RequestTxIds")], "ok");
        assert!(judge(txs_spec, &either, true, "TxIdsBlocking").is_ok());
        assert!(judge(txs_spec, &either, true, "TxIdsNonBlocking").is_ok());
        assert!(judge(txs_spec, &either, true, "Idle").is_err());
        let none = mk_case("txsubmission", "server", "wait_for_init", "Idle", "Idle", &[], "ok");
        assert!(judge(txs_spec, &none, true, "Idle").is_ok());
        assert!(judge(txs_spec, &none, true, "Init").is_err(), "Ok without an exchange must leave the state unchanged");
        let broken = mk_case("keepalive", "client", "x", "Client", "Client", &[("Server", "ResponseKeepAlive")], "ok");
        assert!(judge(ka_spec, &broken, true, "Client").is_err(), "an exchange that is not on the specification path");
    }

    let cases = builtin_cases();
    let (mut conform, mut unsupported) = (0usize, 0usize);
    for c in &cases {
        match replay(&rt, c, &spec) {
            Verdict::Conforms => conform += 1,
            Verdict::Unsupported => {
                unsupported += 1;
                problems.push(format!("built-in case could not be replayed: {}", c.label()));
            }
            Verdict::Violates(why) => problems.push(why),
        }
    }

    // an unknown method / agent is reported as unsupported, not as a failure
    let unknown = mk_case("keepalive", "client", "no_such_method", "Client", "Client", &[], "ok");
    assert_eq!(replay(&rt, &unknown, &spec), Verdict::Unsupported);
    let unknown = mk_case("txmonitor", "server", "acquire", "Idle", "Idle", &[], "ok");
    assert_eq!(replay(&rt, &unknown, &spec), Verdict::Unsupported);
    // a receive without anything to receive runs into the timeout: unsupported, not a failure
    let starving = mk_case("peersharing", "client", "recv_peer_addresses", "Busy", "Busy", &[], "ok");
    assert_eq!(replay(&rt, &starving, &spec), Verdict::Unsupported);

    for p in &problems {
        println!("C23S PROBLEM: {p}");
    }
    println!(
        "C23S built-in cases={} conform={conform} unsupported={unsupported} problems={}",
        cases.len(),
        problems.len()
    );
    assert!(problems.is_empty(), "C23S: {} problem(s) in the built-in run", problems.len());
}
