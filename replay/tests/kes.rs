//! Native replay for the KES period-routing queries (C12): for the period the solver model names
//! (env KES_PERIOD; without it every period of the depth-3 .. depth-6 trees is walked), the real
//! Sum{3,6}Kes and Sum{3,6}CompactKes keys are evolved to that period, sign a message, and the signature
//! must verify under the original public key at that period and must not verify at a neighbouring period.
use pallas_crypto::kes::summed_kes::*;
use pallas_crypto::kes::traits::{KesCompactSig, KesSig, KesSk};

macro_rules! walk {
    ($name:ident, $kes:ident, $total:expr) => {
        fn $name(upto: u32, bad: &mut Vec<String>) {
            let mut buf = [0u8; $kes::SIZE + 4];
            let mut seed = [7u8; 32];
            let (mut sk, pk) = $kes::keygen(&mut buf, &mut seed);
            let msg = b"replay message";
            for p in 0..$total {
                if p > upto {
                    break;
                }
                if p == upto || upto == u32::MAX {
                    let sig = sk.sign(msg);
                    if sig.verify(p, &pk, msg).is_err() {
                        bad.push(format!("{}: a signature made at period {} does not verify at that period", stringify!($kes), p));
                    }
                    let other = if p + 1 < $total { p + 1 } else { p - 1 };
                    if sig.verify(other, &pk, msg).is_ok() {
                        bad.push(format!("{}: a signature made at period {} verifies at period {}", stringify!($kes), p, other));
                    }
                }
                if p + 1 < $total && sk.update().is_err() {
                    bad.push(format!("{}: update at period {} fails", stringify!($kes), p));
                    break;
                }
            }
        }
    };
}
walk!(walk_sum3, Sum3Kes, 8u32);
walk!(walk_sum6, Sum6Kes, 64u32);
walk!(walk_sum3c, Sum3CompactKes, 8u32);
walk!(walk_sum6c, Sum6CompactKes, 64u32);

#[test]
fn kes_period_routing() {
    let mut bad = vec![];
    match std::env::var("KES_PERIOD").ok().and_then(|s| s.parse::<u64>().ok()) {
        Some(p) => {
            walk_sum3((p % 8) as u32, &mut bad);
            walk_sum3c((p % 8) as u32, &mut bad);
            walk_sum6((p % 64) as u32, &mut bad);
            walk_sum6c((p % 64) as u32, &mut bad);
        }
        None => {}
    }
    // every period of the small trees, always
    walk_sum3(u32::MAX, &mut bad);
    walk_sum3c(u32::MAX, &mut bad);
    walk_sum6(u32::MAX, &mut bad);
    walk_sum6c(u32::MAX, &mut bad);
    for b in &bad {
        eprintln!("KES-VIOLATION {b}");
    }
    assert!(bad.is_empty(), "{} KES case(s) fail", bad.len());
}
