//! Native replay for the C31 counterexample classes (phase-2 validity rule of MultiEraTx::produces / produces_at):
//! every Babbage / Conway / Alonzo transaction of test_data (stand-alone .tx files and the transactions of the .block
//! files) is checked under both values of its validity flag (the `success` field is public).
use pallas_traverse::{MultiEraBlock, MultiEraTx};
use std::borrow::Cow;

fn with_flag<'a>(tx: &MultiEraTx<'a>, ok: bool) -> Option<MultiEraTx<'a>> {
    match tx {
        MultiEraTx::AlonzoCompatible(x, e) => {
            let mut t = (***x).clone();
            t.success = ok;
            Some(MultiEraTx::AlonzoCompatible(Box::new(Cow::Owned(t)), *e))
        }
        MultiEraTx::Babbage(x) => {
            let mut t = (***x).clone();
            t.success = ok;
            Some(MultiEraTx::Babbage(Box::new(Cow::Owned(t))))
        }
        MultiEraTx::Conway(x) => {
            let mut t = (***x).clone();
            t.success = ok;
            Some(MultiEraTx::Conway(Box::new(Cow::Owned(t))))
        }
        _ => None,
    }
}

fn check(tx: &MultiEraTx, tag: &str) -> usize {
    let mut n = 0;
    for ok in [true, false] {
        let Some(t) = with_flag(tx, ok) else { continue };
        assert_eq!(t.is_valid(), ok, "{tag}: validity flag");
        let outs = t.outputs();
        let prod = t.produces();
        if ok {
            assert_eq!(prod.len(), outs.len(), "{tag}: valid tx produces all outputs");
            for (k, (i, o)) in prod.iter().enumerate() {
                assert_eq!(*i, k, "{tag}: produced indices are 0..n-1");
                assert_eq!(o.encode(), outs[k].encode(), "{tag}: produced output {k}");
                assert_eq!(t.produces_at(k).map(|x| x.encode()), Some(outs[k].encode()), "{tag}: produces_at({k})");
            }
            assert!(t.produces_at(outs.len()).is_none(), "{tag}: valid tx produces nothing at index n");
        } else {
            match t.collateral_return() {
                Some(cr) => {
                    assert_eq!(prod.len(), 1, "{tag}: invalid tx produces only the collateral return");
                    assert_eq!(prod[0].0, outs.len(), "{tag}: collateral return is produced at index n");
                    assert_eq!(prod[0].1.encode(), cr.encode(), "{tag}: the produced output is the collateral return");
                    assert_eq!(t.produces_at(outs.len()).map(|x| x.encode()), Some(cr.encode()), "{tag}: produces_at(n)");
                }
                None => {
                    assert!(prod.is_empty(), "{tag}: invalid tx without collateral return produces nothing");
                    assert!(t.produces_at(outs.len()).is_none(), "{tag}: produces_at(n) without collateral return");
                }
            }
            for k in 0..outs.len() {
                assert!(t.produces_at(k).is_none(), "{tag}: invalid tx produces nothing at index {k} < n");
            }
        }
        n += 1;
    }
    n
}

#[test]
fn c31_produces_follows_the_validity_rule() {
    let mut checked = 0;
    let mut with_cr = 0;
    for e in std::fs::read_dir("/repo/test_data").unwrap() {
        let p = e.unwrap().path();
        let name = p.file_name().unwrap().to_string_lossy().to_string();
        let Ok(s) = std::fs::read_to_string(&p) else { continue };
        let Ok(bytes) = hex::decode(s.trim()) else { continue };
        if name.ends_with(".tx") {
            if let Ok(tx) = MultiEraTx::decode(&bytes) {
                if tx.collateral_return().is_some() { with_cr += 1; }
                checked += check(&tx, &name);
            }
        } else if name.ends_with(".block") {
            if let Ok(b) = MultiEraBlock::decode(&bytes) {
                for (i, tx) in b.txs().iter().enumerate() {
                    if tx.collateral_return().is_some() { with_cr += 1; }
                    checked += check(tx, &format!("{name}#{i}"));
                }
            }
        }
    }
    println!("C31 checked {checked} (tx, flag) cases, {with_cr} transactions with a collateral return");
    assert!(checked > 100 && with_cr > 0, "fixtures must exercise the rule ({checked}, {with_cr})");
}

/// consumes(): every output reference exactly once, whatever the order of duplicates ([A, B, A]).
#[test]
fn c31_consumes_each_input_once() {
    use pallas_traverse::Era;
    use std::collections::HashSet;
    let mut cases = 0;
    for name in ["alonzo1.tx", "alonzo2.tx", "babbage1.tx", "babbage2.tx"] {
        let Ok(s) = std::fs::read_to_string(format!("/repo/test_data/{name}")) else { continue };
        let Ok(bytes) = hex::decode(s.trim()) else { continue };
        let Ok(tx) = MultiEraTx::decode(&bytes) else { println!("{name}: does not decode"); continue };
        for ok in [true, false] {
            // rebuild the transaction with inputs / collateral = [A, B, A]
            let t: Option<MultiEraTx> = match &tx {
                MultiEraTx::AlonzoCompatible(x, e) => {
                    let mut t = (***x).clone();
                    let a = t.transaction_body.inputs.first().cloned();
                    let Some(a) = a else { continue };
                    let mut b = a.clone();
                    b.index += 1;
                    let dup = vec![a.clone(), b, a];
                    {
                        let body = std::ops::DerefMut::deref_mut(&mut t.transaction_body);
                        body.inputs = dup.clone();
                        body.collateral = Some(dup);
                    }
                    t.success = ok;
                    Some(MultiEraTx::AlonzoCompatible(Box::new(Cow::Owned(t)), *e))
                }
                MultiEraTx::Babbage(x) => {
                    let mut t = (***x).clone();
                    let a = t.transaction_body.inputs.first().cloned();
                    let Some(a) = a else { continue };
                    let mut b = a.clone();
                    b.index += 1;
                    let dup = vec![a.clone(), b, a];
                    {
                        let body = std::ops::DerefMut::deref_mut(&mut t.transaction_body);
                        body.inputs = dup.clone();
                        body.collateral = Some(dup);
                    }
                    t.success = ok;
                    Some(MultiEraTx::Babbage(Box::new(Cow::Owned(t))))
                }
                MultiEraTx::Conway(x) => {
                    let mut t = (***x).clone();
                    let a = t.transaction_body.inputs.iter().next().cloned();
                    let Some(a) = a else { continue };
                    let mut b = a.clone();
                    b.index += 1;
                    let dup = vec![a.clone(), b, a];
                    {
                        let body = std::ops::DerefMut::deref_mut(&mut t.transaction_body);
                        body.inputs = pallas_codec::utils::Set::from(dup.clone());
                        body.collateral = pallas_codec::utils::NonEmptySet::from_vec(dup);
                    }
                    t.success = ok;
                    Some(MultiEraTx::Conway(Box::new(Cow::Owned(t))))
                }
                _ => None,
            };
            let Some(t) = t else { println!("{name}: era not handled"); continue };
            let got: Vec<_> = t.consumes().iter().map(|i| i.output_ref()).collect();
            let uniq: HashSet<_> = got.iter().cloned().collect();
            assert_eq!(got.len(), uniq.len(), "{name} valid={ok}: an input is consumed more than once");
            assert_eq!(uniq.len(), 2, "{name} valid={ok}: every distinct input is consumed");
            cases += 1;
        }
    }
    let _ = Era::Alonzo;
    assert!(cases >= 2, "fixtures must exercise consumes() ({cases})");
}
