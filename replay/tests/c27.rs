//! Native replay for C27 (peer-set consistency of PromotionBehavior). C27_CASE = JSON produced by mirsym:
//! {"method": .., "pid": i, "sets": {"cold":[..],"warm":[..],"hot":[..],"banned":[..]}, "limits": {...}, "kind": "inv"|"panic"}
//! The pre-state is installed through the public fields, the real method is called, and the invariant
//! (pairwise disjoint sets within limits, banned stays banned) is checked on the real sets.
use pallas_network2::behavior::{InitiatorState, PromotionBehavior, PromotionConfig};
use pallas_network2::PeerId;
use std::collections::HashSet;

fn pid(i: u64) -> PeerId { PeerId { host: format!("10.0.0.{i}"), port: 3000 + i as u16 } }

fn invariant(p: &PromotionBehavior, cfg: (usize, usize, usize), banned_before: &HashSet<PeerId>) -> Result<(), String> {
    let sets = [("cold", &p.cold_peers), ("warm", &p.warm_peers), ("hot", &p.hot_peers), ("banned", &p.banned_peers)];
    for i in 0..4 {
        for j in (i + 1)..4 {
            if let Some(x) = sets[i].1.intersection(sets[j].1).next() {
                return Err(format!("{} and {} both contain {x}", sets[i].0, sets[j].0));
            }
        }
    }
    let total = p.cold_peers.len() + p.warm_peers.len() + p.hot_peers.len();
    if total > cfg.0 { return Err(format!("total peers {total} > max_peers {}", cfg.0)); }
    if p.warm_peers.len() > cfg.1 { return Err("warm over limit".into()); }
    if p.hot_peers.len() > cfg.2 { return Err("hot over limit".into()); }
    if !banned_before.is_subset(&p.banned_peers) { return Err("a banned peer was un-banned".into()); }
    Ok(())
}

fn run_case(method: &str, target: u64, cold: &[u64], warm: &[u64], hot: &[u64], banned: &[u64], limits: (usize, usize, usize)) -> Result<(), String> {
    let mut p = PromotionBehavior::new(PromotionConfig { max_peers: limits.0, max_warm_peers: limits.1, max_hot_peers: limits.2, max_error_count: 1 });
    for &i in cold { p.cold_peers.insert(pid(i)); }
    for &i in warm { p.warm_peers.insert(pid(i)); }
    for &i in hot { p.hot_peers.insert(pid(i)); }
    for &i in banned { p.banned_peers.insert(pid(i)); }
    let before = p.banned_peers.clone();
    invariant(&p, limits, &before).map_err(|e| format!("pre-state does not satisfy the invariant: {e}"))?;
    let mut st = InitiatorState::new();
    let t = pid(target);
    match method {
        "on_peer_discovered" => p.on_peer_discovered(&t, &mut st),
        "ban_peer" => p.ban_peer(&t, &mut st),
        "demote_peer" => p.demote_peer(&t, &mut st),
        // categorize_peer is private: it is what the visitor hooks call
        "categorize_peer" => {
            use pallas_network2::behavior::PeerVisitor;
            let mut q = pallas_network2::OutboundQueue::new();
            p.visit_housekeeping(&t, &mut st, &mut q)
        }
        m => return Err(format!("unknown method {m}")),
    }
    invariant(&p, limits, &before)
}

#[test]
fn c27_case() {
    if let Ok(c) = std::env::var("C27_CASE") {
        let v: serde_json::Value = serde_json::from_str(&c).unwrap();
        let l = |k: &str| -> Vec<u64> { v["sets"][k].as_array().unwrap().iter().map(|x| x.as_u64().unwrap()).collect() };
        let lim = |k: &str| -> usize { v["limits"][k].as_u64().unwrap().min(1 << 40) as usize };
        let r = run_case(v["method"].as_str().unwrap(), v["pid"].as_u64().unwrap(), &l("cold"), &l("warm"), &l("hot"), &l("banned"),
                         (lim("max_peers"), lim("max_warm"), lim("max_hot")));
        assert!(r.is_ok(), "C27 violated natively: {}", r.unwrap_err());
        return;
    }
    // default scenario: a warm / hot peer is discovered again (IncludePeer twice)
    for (warm, hot) in [(vec![0u64], vec![]), (vec![], vec![0u64])] {
        let r = run_case("on_peer_discovered", 0, &[], &warm, &hot, &[], (10, 5, 5));
        assert!(r.is_ok(), "C27 violated natively: {}", r.unwrap_err());
    }
}
