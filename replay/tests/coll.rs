//! Native replay for the collateral-amount rule (C38) and its arithmetic (C33): the real
//! phase1::{babbage,conway}::check_collaterals_assets (through the add-only verif hook) on a transaction
//! body with one collateral input worth `paid` lovelace, fee `fee`, and collateral percentage `pct`.
//! The case comes from the solver model (env COLL_CASE = {"era","fee","pct","paid","kind"}); without it a
//! fixed set of boundary cases is run.  The test FAILS when the real code panics, or accepts although
//! 100 * paid < fee * pct (exact), or accepts although an annotated total collateral differs from paid.
#[path = "/verif/kani/k_val/src/build.rs"]
#[allow(dead_code, unused_imports)]
mod build;
use pallas_codec::utils::Bytes;
use pallas_crypto::hash::Hash;
use pallas_traverse::{MultiEraInput, MultiEraOutput};
use pallas_validate::utils::UTxOs;
use std::borrow::Cow;

fn addr() -> Bytes {
    // enterprise key-hash address (mainnet)
    let mut v = vec![0x61u8];
    v.extend_from_slice(&[7u8; 28]);
    Bytes::from(v)
}

fn run_babbage(fee: u64, pct: u32, paid: u64, total: Option<u64>) -> Result<bool, String> {
    use build::ba::*;
    let mut body = body();
    let tx_in = TransactionInput { transaction_id: Hash::new([1u8; 32]), index: 0 };
    body.fee = fee;
    body.collateral = Some(vec![tx_in.clone()]);
    body.total_collateral = total;
    let mut pp = pp();
    pp.collateral_percentage = pct;
    let out = TransactionOutput::PostAlonzo(
        PostAlonzoTransactionOutput { address: addr(), value: Value::Coin(paid), datum_option: None, script_ref: None }.into(),
    );
    let mut utxos: UTxOs = UTxOs::new();
    utxos.insert(
        MultiEraInput::AlonzoCompatible(Box::new(Cow::Owned(tx_in))),
        MultiEraOutput::Babbage(Box::new(Cow::Owned(out))),
    );
    let r = std::panic::catch_unwind(std::panic::AssertUnwindSafe(|| {
        pallas_validate::phase1::babbage::verif_hooks::check_collaterals_assets(&body, &utxos, &pp)
    }));
    match r {
        Ok(res) => Ok(res.is_ok()),
        Err(_) => Err("panic".into()),
    }
}

fn run_conway(fee: u64, pct: u32, paid: u64, total: Option<u64>) -> Result<bool, String> {
    use build::co::*;
    let mut body = body();
    let tx_in = TransactionInput { transaction_id: Hash::new([1u8; 32]), index: 0 };
    body.fee = fee;
    body.collateral = pallas_codec::utils::NonEmptySet::from_vec(vec![tx_in.clone()]);
    body.total_collateral = total;
    let mut pp = pp();
    pp.collateral_percentage = pct;
    let out = TransactionOutput::PostAlonzo(
        PostAlonzoTransactionOutput { address: addr(), value: Value::Coin(paid), datum_option: None, script_ref: None }.into(),
    );
    let mut utxos: UTxOs = UTxOs::new();
    utxos.insert(
        MultiEraInput::AlonzoCompatible(Box::new(Cow::Owned(tx_in))),
        MultiEraOutput::Conway(Box::new(Cow::Owned(out))),
    );
    let r = std::panic::catch_unwind(std::panic::AssertUnwindSafe(|| {
        pallas_validate::phase1::conway::verif_hooks::check_collaterals_assets(&body, &utxos, &pp)
    }));
    match r {
        Ok(res) => Ok(res.is_ok()),
        Err(_) => Err("panic".into()),
    }
}

fn check(era: &str, fee: u64, pct: u32, paid: u64) -> Vec<String> {
    let mut bad = vec![];
    let enough = (paid as u128) * 100 >= (fee as u128) * (pct as u128);
    for total in [None, Some(paid), Some(paid.wrapping_add(1))] {
        let r = if era == "conway" { run_conway(fee, pct, paid, total) } else { run_babbage(fee, pct, paid, total) };
        let case = format!("{era} fee={fee} pct={pct} paid={paid} total_collateral={total:?}");
        match r {
            Err(_) => bad.push(format!("{case}: check_collaterals_assets PANICS")),
            Ok(true) if !enough => bad.push(format!("{case}: accepted although 100*paid < fee*pct")),
            Ok(true) if total.is_some() && total != Some(paid) => bad.push(format!("{case}: accepted although the annotation differs from the balance")),
            Ok(false) if enough && (total.is_none() || total == Some(paid)) => bad.push(format!("{case}: rejected although the rule is met")),
            _ => {}
        }
    }
    bad
}

#[test]
fn coll_rule_holds_on_case() {
    let mut cases: Vec<(String, u64, u32, u64)> = vec![];
    if let Ok(s) = std::env::var("COLL_CASE") {
        let v: serde_json::Value = serde_json::from_str(&s).expect("COLL_CASE json");
        let g = |k: &str| v.get(k).and_then(|x| x.as_u64()).unwrap_or(0);
        cases.push((v["era"].as_str().unwrap_or("babbage").to_string(), g("fee"), g("pct") as u32, g("paid")));
    } else {
        for era in ["babbage", "conway"] {
            for (fee, pct, paid) in [(200_000u64, 150u32, 300_000u64), (200_000, 150, 299_999), (1, 150, 1), (3, 150, 4), (3, 150, 5), (0, 0, 0), (1_000_000, 150, 1_500_000)] {
                cases.push((era.to_string(), fee, pct, paid));
            }
        }
    }
    let mut bad = vec![];
    for (era, fee, pct, paid) in cases {
        bad.extend(check(&era, fee, pct, paid));
    }
    for b in &bad {
        eprintln!("COLL-VIOLATION {b}");
    }
    assert!(bad.is_empty(), "{} collateral case(s) break the rule", bad.len());
}
