//! C23: state/agency guard tables of every pallas-network mini-protocol agent, compared with the
//! specification tables in /verif/spec/n2_protocols.json.
//!
//! For each protocol, role (client / server), State variant and Message variant the hook
//! `<Agent>::verif_guards(state, &msg) -> (accepts_to_send, accepts_to_receive)` is evaluated and compared:
//!   send  <=> spec has a transition [state, msg, _] and agency(state) == own role
//!   recv  <=> spec has a transition [state, msg, _] and agency(state) == the other role
//!
//! Env:
//!   C23_CASE="<proto>;<role>;<send|recv>;<State>;<Message>"  check only that case
//!   C23_SPEC=<path>                                            alternative spec file
//!
//! Run (from /verif/replay):
//!   CARGO_NET_OFFLINE=true CARGO_TARGET_DIR=/verif/replay/target RUSTFLAGS="--cfg pallas_verif" \
//!     cargo test --offline --test c23 -- --nocapture
#![allow(clippy::type_complexity)]

use std::collections::{BTreeMap, BTreeSet, HashMap};

use pallas_codec::utils::AnyCbor;
use pallas_network::miniprotocols::{
    blockfetch as bf, chainsync as cs, handshake as hs, keepalive as ka, localstate as ls,
    localtxsubmission as ltx, peersharing as ps, txmonitor as tm, txsubmission as txs, Point,
};

const DEFAULT_SPEC: &str = "/verif/spec/n2_protocols.json";

// ---------------------------------------------------------------------------------------------
// specification tables
// ---------------------------------------------------------------------------------------------

struct ProtoSpec {
    /// state variant name -> agency ('C', 'S' or '-')
    states: BTreeMap<String, char>,
    /// (state, message)
    transitions: BTreeSet<(String, String)>,
}

fn load_spec() -> BTreeMap<String, ProtoSpec> {
    let path = std::env::var("C23_SPEC").unwrap_or_else(|_| DEFAULT_SPEC.to_string());
    let text = std::fs::read_to_string(&path).unwrap_or_else(|e| panic!("cannot read {path}: {e}"));
    let json: serde_json::Value =
        serde_json::from_str(&text).unwrap_or_else(|e| panic!("cannot parse {path}: {e}"));
    let mut out = BTreeMap::new();
    for (key, val) in json.as_object().expect("spec: top level must be an object") {
        if key.starts_with('_') {
            continue;
        }
        let obj = val.as_object().unwrap_or_else(|| panic!("spec {key}: not an object"));
        let mut states = BTreeMap::new();
        for (s, a) in obj["states"].as_object().unwrap_or_else(|| panic!("spec {key}: states")) {
            let a = a.as_str().unwrap_or_else(|| panic!("spec {key}: agency of {s}"));
            let c = match a {
                "C" => 'C',
                "S" => 'S',
                "-" => '-',
                other => panic!("spec {key}: unknown agency {other:?} for state {s}"),
            };
            states.insert(s.clone(), c);
        }
        let mut transitions = BTreeSet::new();
        for t in obj["transitions"].as_array().unwrap_or_else(|| panic!("spec {key}: transitions")) {
            let t = t.as_array().unwrap_or_else(|| panic!("spec {key}: transition not an array"));
            assert_eq!(t.len(), 3, "spec {key}: transition must be [state, message, next]");
            let from = t[0].as_str().unwrap().to_string();
            let msg = t[1].as_str().unwrap().to_string();
            assert!(
                states.contains_key(&from),
                "spec {key}: transition from undeclared state {from}"
            );
            for next in t[2].as_str().unwrap().split('|') {
                assert!(
                    states.contains_key(next),
                    "spec {key}: transition to undeclared state {next}"
                );
            }
            transitions.insert((from, msg));
        }
        let module = obj.get("module").and_then(|m| m.as_str()).unwrap_or(key).to_string();
        out.insert(module, ProtoSpec { states, transitions });
    }
    out
}

// ---------------------------------------------------------------------------------------------
// generic checker
// ---------------------------------------------------------------------------------------------

#[derive(Clone, Copy, PartialEq, Eq)]
enum Role {
    Client,
    Server,
}

impl Role {
    fn name(self) -> &'static str {
        match self {
            Role::Client => "client",
            Role::Server => "server",
        }
    }
    fn own(self) -> char {
        match self {
            Role::Client => 'C',
            Role::Server => 'S',
        }
    }
    fn other(self) -> char {
        match self {
            Role::Client => 'S',
            Role::Server => 'C',
        }
    }
}

struct Case {
    proto: String,
    role: String,
    dir: String,
    state: String,
    msg: String,
}

fn parse_case() -> Option<Case> {
    let raw = std::env::var("C23_CASE").ok()?;
    let raw = raw.trim();
    if raw.is_empty() {
        return None;
    }
    let parts: Vec<&str> = raw.split(';').map(|p| p.trim()).collect();
    assert_eq!(
        parts.len(),
        5,
        "C23_CASE must be \"<proto>;<role>;<send|recv>;<State>;<Message>\", got {raw:?}"
    );
    assert!(
        parts[1] == "client" || parts[1] == "server",
        "C23_CASE: role must be client|server, got {:?}",
        parts[1]
    );
    assert!(
        parts[2] == "send" || parts[2] == "recv",
        "C23_CASE: direction must be send|recv, got {:?}",
        parts[2]
    );
    Some(Case {
        proto: parts[0].to_string(),
        role: parts[1].to_string(),
        dir: parts[2].to_string(),
        state: parts[3].to_string(),
        msg: parts[4].to_string(),
    })
}

struct Ctx {
    spec: BTreeMap<String, ProtoSpec>,
    case: Option<Case>,
    /// number of (proto, role, dir, state, msg) comparisons performed
    checked: usize,
    mismatches: Vec<String>,
    /// protocols (modules) that were exercised, with the roles
    seen: BTreeSet<(String, &'static str)>,
}

impl Ctx {
    /// `states` is a constructor (State is moved into the hook and not always Clone).
    fn run<S, M>(
        &mut self,
        proto: &str,
        role: Role,
        state_variants: &[&str],
        msg_variants: &[&str],
        states: fn() -> Vec<S>,
        msgs: &[M],
        sname: fn(&S) -> &'static str,
        mname: fn(&M) -> &'static str,
        guards: fn(S, &M) -> (bool, bool),
    ) {
        let spec = self
            .spec
            .get(proto)
            .unwrap_or_else(|| panic!("protocol {proto} missing from the specification file"));
        self.seen.insert((proto.to_string(), role.name()));

        // --- naming / coverage sanity: problems here are reported, never hidden -----------------
        let built_states: Vec<&'static str> = states().iter().map(sname).collect();
        let built_msgs: Vec<&'static str> = msgs.iter().map(mname).collect();
        for v in state_variants {
            if built_states.iter().filter(|b| *b == v).count() != 1 {
                self.mismatches.push(format!(
                    "NAMEERR {proto} {}: State variant {v} not constructed exactly once",
                    role.name()
                ));
            }
        }
        for v in msg_variants {
            if built_msgs.iter().filter(|b| *b == v).count() != 1 {
                self.mismatches.push(format!(
                    "NAMEERR {proto} {}: Message variant {v} not constructed exactly once",
                    role.name()
                ));
            }
        }
        for s in spec.states.keys() {
            if !state_variants.contains(&s.as_str()) {
                self.mismatches.push(format!(
                    "NAMEERR {proto} {}: spec state {s} is not a variant of the Rust State enum",
                    role.name()
                ));
            }
        }
        for s in state_variants {
            if !spec.states.contains_key(*s) {
                self.mismatches.push(format!(
                    "NAMEERR {proto} {}: Rust State variant {s} is not declared in the spec",
                    role.name()
                ));
            }
        }
        for (_, m) in spec.transitions.iter() {
            if !msg_variants.contains(&m.as_str()) {
                self.mismatches.push(format!(
                    "NAMEERR {proto} {}: spec message {m} is not a variant of the Rust Message enum",
                    role.name()
                ));
            }
        }

        // --- the table ------------------------------------------------------------------------
        for msg in msgs {
            let mn = mname(msg);
            for state in states() {
                let sn = sname(&state);
                let agency = spec.states.get(sn).copied().unwrap_or('?');
                let has_tr = spec.transitions.contains(&(sn.to_string(), mn.to_string()));
                let spec_send = has_tr && agency == role.own();
                let spec_recv = has_tr && agency == role.other();
                let (impl_send, impl_recv) = guards(state, msg);
                for (dir, i, s) in [("send", impl_send, spec_send), ("recv", impl_recv, spec_recv)] {
                    if let Some(c) = &self.case {
                        if c.proto != proto
                            || c.role != role.name()
                            || c.dir != dir
                            || c.state != sn
                            || c.msg != mn
                        {
                            continue;
                        }
                        println!(
                            "CASE {proto} {} {dir} state={sn} msg={mn} impl={i} spec={s}",
                            role.name()
                        );
                    }
                    self.checked += 1;
                    if i != s {
                        self.mismatches.push(format!(
                            "MISMATCH {proto} {} {dir} state={sn} msg={mn} impl={i} spec={s}",
                            role.name()
                        ));
                    }
                }
            }
        }
    }
}

/// Generates `fn $f(&$ty) -> &'static str` (exhaustive match: a new enum variant breaks the build) and the
/// list `$list` of all variant names. `V { .. }` patterns match unit, tuple and struct variants alike.
macro_rules! namer {
    ($f:ident, $list:ident, $ty:ident, [$($var:ident),* $(,)?]) => {
        fn $f(v: &$ty) -> &'static str {
            match v {
                $( $ty::$var { .. } => stringify!($var), )*
            }
        }
        const $list: &[&str] = &[$(stringify!($var)),*];
    };
}

// ---------------------------------------------------------------------------------------------
// per-protocol values
// ---------------------------------------------------------------------------------------------

fn pt() -> Point {
    Point::Specific(7, vec![0xab; 32])
}

fn tip() -> cs::Tip {
    cs::Tip(pt(), 3)
}

// ---- handshake ----
type HsData = hs::n2n::VersionData;
type HsState = hs::State;
type HsMsg = hs::Message<HsData>;
namer!(hs_sname, HS_STATES, HsState, [Propose, Confirm, Done]);
namer!(hs_mname, HS_MSGS, HsMsg, [Propose, Accept, Refuse, QueryReply]);

fn hs_states() -> Vec<HsState> {
    vec![HsState::Propose, HsState::Confirm, HsState::Done]
}

fn hs_data() -> HsData {
    HsData {
        network_magic: 764824073,
        initiator_only_diffusion_mode: false,
        peer_sharing: Some(0),
        query: Some(false),
    }
}

fn hs_table() -> hs::VersionTable<HsData> {
    let mut values = HashMap::new();
    values.insert(13u64, hs_data());
    hs::VersionTable { values }
}

fn hs_msgs() -> Vec<HsMsg> {
    vec![
        HsMsg::Propose(hs_table()),
        HsMsg::Accept(13, hs_data()),
        HsMsg::Refuse(hs::RefuseReason::VersionMismatch(vec![13])),
        HsMsg::QueryReply(hs_table()),
    ]
}

// ---- chainsync ----
type CsState = cs::State;
type CsMsg = cs::Message<cs::HeaderContent>;
namer!(cs_sname, CS_STATES, CsState, [Idle, CanAwait, MustReply, Intersect, Done]);
namer!(
    cs_mname,
    CS_MSGS,
    CsMsg,
    [
        RequestNext,
        AwaitReply,
        RollForward,
        RollBackward,
        FindIntersect,
        IntersectFound,
        IntersectNotFound,
        Done
    ]
);

fn cs_states() -> Vec<CsState> {
    vec![
        CsState::Idle,
        CsState::CanAwait,
        CsState::MustReply,
        CsState::Intersect,
        CsState::Done,
    ]
}

fn cs_msgs() -> Vec<CsMsg> {
    let content = cs::HeaderContent { variant: 1, byron_prefix: None, cbor: vec![0x80] };
    vec![
        CsMsg::RequestNext,
        CsMsg::AwaitReply,
        CsMsg::RollForward(content, tip()),
        CsMsg::RollBackward(pt(), tip()),
        CsMsg::FindIntersect(vec![pt(), Point::Origin]),
        CsMsg::IntersectFound(pt(), tip()),
        CsMsg::IntersectNotFound(tip()),
        CsMsg::Done,
    ]
}

// ---- blockfetch ----
type BfState = bf::State;
type BfMsg = bf::Message;
namer!(bf_sname, BF_STATES, BfState, [Idle, Busy, Streaming, Done]);
namer!(
    bf_mname,
    BF_MSGS,
    BfMsg,
    [RequestRange, ClientDone, StartBatch, NoBlocks, Block, BatchDone]
);

fn bf_states() -> Vec<BfState> {
    vec![BfState::Idle, BfState::Busy, BfState::Streaming, BfState::Done]
}

fn bf_msgs() -> Vec<BfMsg> {
    vec![
        BfMsg::RequestRange { range: (pt(), pt()) },
        BfMsg::ClientDone,
        BfMsg::StartBatch,
        BfMsg::NoBlocks,
        BfMsg::Block { body: vec![0x80] },
        BfMsg::BatchDone,
    ]
}

// ---- txsubmission ----
type TxsState = txs::State;
type TxsMsg = txs::Message<txs::EraTxId, txs::EraTxBody>;
namer!(
    txs_sname,
    TXS_STATES,
    TxsState,
    [Init, Idle, TxIdsNonBlocking, TxIdsBlocking, Txs, Done]
);
namer!(
    txs_mname,
    TXS_MSGS,
    TxsMsg,
    [Init, RequestTxIds, ReplyTxIds, RequestTxs, ReplyTxs, Done]
);

fn txs_states() -> Vec<TxsState> {
    vec![
        TxsState::Init,
        TxsState::Idle,
        TxsState::TxIdsNonBlocking,
        TxsState::TxIdsBlocking,
        TxsState::Txs,
        TxsState::Done,
    ]
}

fn txs_msgs() -> Vec<TxsMsg> {
    let id = txs::EraTxId(6, vec![0x11; 32]);
    vec![
        TxsMsg::Init,
        TxsMsg::RequestTxIds(true, 0, 1),
        TxsMsg::ReplyTxIds(vec![txs::TxIdAndSize(id.clone(), 100)]),
        TxsMsg::RequestTxs(vec![id]),
        TxsMsg::ReplyTxs(vec![txs::EraTxBody(6, vec![0x80])]),
        TxsMsg::Done,
    ]
}

// ---- keepalive ----
type KaState = ka::State;
type KaMsg = ka::Message;
namer!(ka_sname, KA_STATES, KaState, [Client, Server, Done]);
namer!(ka_mname, KA_MSGS, KaMsg, [KeepAlive, ResponseKeepAlive, Done]);

fn ka_states() -> Vec<KaState> {
    vec![KaState::Client, KaState::Server(42), KaState::Done]
}

fn ka_msgs() -> Vec<KaMsg> {
    vec![KaMsg::KeepAlive(42), KaMsg::ResponseKeepAlive(42), KaMsg::Done]
}

// ---- peersharing ----
type PsState = ps::State;
type PsMsg = ps::Message;
namer!(ps_sname, PS_STATES, PsState, [Idle, Busy, Done]);
namer!(ps_mname, PS_MSGS, PsMsg, [ShareRequest, SharePeers, Done]);

fn ps_states() -> Vec<PsState> {
    vec![PsState::Idle, PsState::Busy(1), PsState::Done]
}

fn ps_msgs() -> Vec<PsMsg> {
    vec![
        PsMsg::ShareRequest(1),
        PsMsg::SharePeers(vec![ps::PeerAddress::V4(std::net::Ipv4Addr::new(127, 0, 0, 1), 3001)]),
        PsMsg::Done,
    ]
}

// ---- localstate ----
type LsState = ls::State;
type LsMsg = ls::Message;
namer!(ls_sname, LS_STATES, LsState, [Idle, Acquiring, Acquired, Querying, Done]);
namer!(
    ls_mname,
    LS_MSGS,
    LsMsg,
    [Acquire, Failure, Acquired, Query, Result, ReAcquire, Release, Done]
);

fn ls_states() -> Vec<LsState> {
    vec![
        LsState::Idle,
        LsState::Acquiring,
        LsState::Acquired,
        LsState::Querying,
        LsState::Done,
    ]
}

fn ls_msgs() -> Vec<LsMsg> {
    vec![
        LsMsg::Acquire(Some(pt())),
        LsMsg::Failure(ls::AcquireFailure::PointTooOld),
        LsMsg::Acquired,
        LsMsg::Query(AnyCbor::from_encode(0u8)),
        LsMsg::Result(AnyCbor::from_encode(0u8)),
        LsMsg::ReAcquire(None),
        LsMsg::Release,
        LsMsg::Done,
    ]
}

// ---- localtxsubmission (types of the non-generic `Client` / `Server` aliases) ----
type LtxState = ltx::State;
type LtxMsg = ltx::Message<ltx::EraTx, ltx::TxValidationError>;
namer!(ltx_sname, LTX_STATES, LtxState, [Idle, Busy, Done]);
namer!(ltx_mname, LTX_MSGS, LtxMsg, [SubmitTx, AcceptTx, RejectTx, Done]);

fn ltx_states() -> Vec<LtxState> {
    vec![LtxState::Idle, LtxState::Busy, LtxState::Done]
}

fn ltx_msgs() -> Vec<LtxMsg> {
    vec![
        LtxMsg::SubmitTx(ltx::EraTx(6, vec![0x80])),
        LtxMsg::AcceptTx,
        LtxMsg::RejectTx(ltx::TxValidationError::Plutus("rejected".to_string())),
        LtxMsg::Done,
    ]
}

// ---- txmonitor (client only) ----
type TmState = tm::State;
type TmMsg = tm::Message;
namer!(tm_sname, TM_STATES, TmState, [Idle, Acquiring, Acquired, Busy, Done]);
namer!(
    tm_mname,
    TM_MSGS,
    TmMsg,
    [
        Acquire,
        AwaitAcquire,
        Acquired,
        RequestHasTx,
        RequestNextTx,
        RequestSizeAndCapacity,
        ResponseHasTx,
        ResponseNextTx,
        ResponseSizeAndCapacity,
        Release,
        Done
    ]
);

fn tm_states() -> Vec<TmState> {
    vec![
        TmState::Idle,
        TmState::Acquiring,
        TmState::Acquired,
        TmState::Busy,
        TmState::Done,
    ]
}

fn tm_msgs() -> Vec<TmMsg> {
    vec![
        TmMsg::Acquire,
        TmMsg::AwaitAcquire,
        TmMsg::Acquired(7),
        TmMsg::RequestHasTx("00".repeat(32)),
        TmMsg::RequestNextTx,
        TmMsg::RequestSizeAndCapacity,
        TmMsg::ResponseHasTx(true),
        TmMsg::ResponseNextTx(None),
        TmMsg::ResponseSizeAndCapacity(tm::MempoolSizeAndCapacity {
            capacity_in_bytes: 1000,
            size_in_bytes: 10,
            number_of_txs: 1,
        }),
        TmMsg::Release,
        TmMsg::Done,
    ]
}

// ---------------------------------------------------------------------------------------------
// the test
// ---------------------------------------------------------------------------------------------

#[test]
fn c23_guard_tables() {
    let mut cx = Ctx {
        spec: load_spec(),
        case: parse_case(),
        checked: 0,
        mismatches: vec![],
        seen: BTreeSet::new(),
    };

    use Role::{Client as C, Server as S};

    cx.run("handshake", C, HS_STATES, HS_MSGS, hs_states, &hs_msgs(), hs_sname, hs_mname,
        hs::Client::<HsData>::verif_guards);
    cx.run("handshake", S, HS_STATES, HS_MSGS, hs_states, &hs_msgs(), hs_sname, hs_mname,
        hs::Server::<HsData>::verif_guards);

    cx.run("chainsync", C, CS_STATES, CS_MSGS, cs_states, &cs_msgs(), cs_sname, cs_mname,
        cs::Client::<cs::HeaderContent>::verif_guards);
    cx.run("chainsync", S, CS_STATES, CS_MSGS, cs_states, &cs_msgs(), cs_sname, cs_mname,
        cs::Server::<cs::HeaderContent>::verif_guards);

    cx.run("blockfetch", C, BF_STATES, BF_MSGS, bf_states, &bf_msgs(), bf_sname, bf_mname,
        bf::Client::verif_guards);
    cx.run("blockfetch", S, BF_STATES, BF_MSGS, bf_states, &bf_msgs(), bf_sname, bf_mname,
        bf::Server::verif_guards);

    cx.run("txsubmission", C, TXS_STATES, TXS_MSGS, txs_states, &txs_msgs(), txs_sname, txs_mname,
        txs::Client::verif_guards);
    cx.run("txsubmission", S, TXS_STATES, TXS_MSGS, txs_states, &txs_msgs(), txs_sname, txs_mname,
        txs::Server::verif_guards);

    cx.run("keepalive", C, KA_STATES, KA_MSGS, ka_states, &ka_msgs(), ka_sname, ka_mname,
        ka::Client::verif_guards);
    cx.run("keepalive", S, KA_STATES, KA_MSGS, ka_states, &ka_msgs(), ka_sname, ka_mname,
        ka::Server::verif_guards);

    cx.run("peersharing", C, PS_STATES, PS_MSGS, ps_states, &ps_msgs(), ps_sname, ps_mname,
        ps::Client::verif_guards);
    cx.run("peersharing", S, PS_STATES, PS_MSGS, ps_states, &ps_msgs(), ps_sname, ps_mname,
        ps::Server::verif_guards);

    cx.run("localstate", C, LS_STATES, LS_MSGS, ls_states, &ls_msgs(), ls_sname, ls_mname,
        ls::Client::verif_guards);
    cx.run("localstate", S, LS_STATES, LS_MSGS, ls_states, &ls_msgs(), ls_sname, ls_mname,
        ls::Server::verif_guards);

    cx.run("localtxsubmission", C, LTX_STATES, LTX_MSGS, ltx_states, &ltx_msgs(), ltx_sname, ltx_mname,
        ltx::Client::verif_guards);
    cx.run("localtxsubmission", S, LTX_STATES, LTX_MSGS, ltx_states, &ltx_msgs(), ltx_sname, ltx_mname,
        ltx::Server::verif_guards);

    cx.run("txmonitor", C, TM_STATES, TM_MSGS, tm_states, &tm_msgs(), tm_sname, tm_mname,
        tm::Client::verif_guards);

    // every protocol of the specification file must have been exercised
    for proto in cx.spec.keys() {
        if !cx.seen.iter().any(|(p, _)| p == proto) {
            cx.mismatches.push(format!("NAMEERR {proto}: protocol of the spec file has no harness"));
        }
    }

    for m in &cx.mismatches {
        println!("{m}");
    }
    println!(
        "C23 protocols/roles={} comparisons={} mismatches={}",
        cx.seen.len(),
        cx.checked,
        cx.mismatches.len()
    );

    if let Some(c) = &cx.case {
        assert!(
            cx.checked > 0,
            "C23_CASE {};{};{};{};{} matched no (protocol, role, direction, State, Message) combination",
            c.proto, c.role, c.dir, c.state, c.msg
        );
    }
    assert!(
        cx.mismatches.is_empty(),
        "C23: {} mismatch(es) between verif_guards and the specification tables",
        cx.mismatches.len()
    );
}
