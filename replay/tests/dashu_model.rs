//! Validation of the trusted IBig model table of mirsym (models_ibig.py) against the real dashu crate:
//! truncating division/remainder, sign(0), abs/neg/cmp, pow, associated constants.
use dashu_base::{Abs, DivRem, Sign};
use dashu_int::IBig;

fn tdiv(a: i128, b: i128) -> i128 { a / b } // Rust's / and % truncate toward zero, like the model
fn trem(a: i128, b: i128) -> i128 { a % b }

#[test]
fn dashu_matches_the_integer_model() {
    let vals: [i128; 13] = [0, 1, -1, 2, -2, 7, -7, 10, -10, 99, -99, 1_000_000_007, -1_000_000_007];
    for &a in &vals {
        let ia = IBig::from(a);
        assert_eq!(ia.sign(), if a < 0 { Sign::Negative } else { Sign::Positive }, "sign({a})");
        assert_eq!((&ia).abs(), IBig::from(a.abs()));
        assert_eq!(-&ia, IBig::from(-a));
        for &b in &vals {
            let ib = IBig::from(b);
            assert_eq!(&ia + &ib, IBig::from(a + b));
            assert_eq!(&ia - &ib, IBig::from(a - b));
            assert_eq!(&ia * &ib, IBig::from(a * b));
            assert_eq!(ia.cmp(&ib), a.cmp(&b));
            assert_eq!(ia == ib, a == b);
            assert_eq!(ia < ib, a < b);
            assert_eq!(ia >= ib, a >= b);
            if b != 0 {
                assert_eq!(&ia / &ib, IBig::from(tdiv(a, b)), "{a}/{b}");
                assert_eq!(&ia % &ib, IBig::from(trem(a, b)), "{a}%{b}");
                let (q, r) = (&ia).div_rem(&ib);
                assert_eq!((q, r), (IBig::from(tdiv(a, b)), IBig::from(trem(a, b))));
            }
            let mut c = ia.clone();
            c -= &ib;
            assert_eq!(c, IBig::from(a - b));
            let mut c = ia.clone();
            c += &ib;
            assert_eq!(c, IBig::from(a + b));
            let mut c = ia.clone();
            c *= &ib;
            assert_eq!(c, IBig::from(a * b));
        }
    }
    assert_eq!(IBig::ONE, IBig::from(1));
    assert_eq!(IBig::ZERO, IBig::from(0));
    assert_eq!(IBig::from(10).pow(34).to_string(), "10000000000000000000000000000000000");
    assert_eq!(IBig::from(10).pow(0), IBig::from(1));
}
