//! Native replay for the C30 counterexample classes (per-index transaction assembly): real blocks are decoded,
//! their invalid-transaction list and auxiliary-data map are replaced by sparse ones through the public fields,
//! and MultiEraBlock::txs() (public API) must give, for every i, body i, witness set i, validity iff i is not
//! listed, and the auxiliary data keyed i (none when there is no such key).
use pallas_codec::minicbor;
use pallas_primitives::{alonzo, babbage, conway};
use pallas_traverse::{Era, MultiEraBlock, MultiEraTx};

fn load(name: &str) -> Vec<u8> {
    let s = std::fs::read_to_string(format!("/repo/test_data/{name}")).unwrap();
    hex::decode(s.trim()).unwrap()
}

fn check(txs: &[MultiEraTx], body_hashes: &[Vec<u8>], wit_raw: &[Vec<u8>], invalid: &[u32], aux_keys: &[u32], aux_raw: &std::collections::BTreeMap<u32, Vec<u8>>) {
    assert_eq!(txs.len(), body_hashes.len(), "transaction count");
    for (i, tx) in txs.iter().enumerate() {
        assert_eq!(tx.hash().to_vec(), body_hashes[i], "tx {i}: body");
        let w = match tx {
            MultiEraTx::AlonzoCompatible(x, _) => x.transaction_witness_set.raw_cbor().to_vec(),
            MultiEraTx::Babbage(x) => x.transaction_witness_set.raw_cbor().to_vec(),
            MultiEraTx::Conway(x) => x.transaction_witness_set.raw_cbor().to_vec(),
            _ => unreachable!(),
        };
        assert_eq!(w, wit_raw[i], "tx {i}: witness set");
        assert_eq!(tx.is_valid(), !invalid.contains(&(i as u32)), "tx {i}: validity flag");
        let a = match tx {
            MultiEraTx::AlonzoCompatible(x, _) => Option::from(x.auxiliary_data.clone()).map(|k: pallas_codec::utils::KeepRaw<_>| k.raw_cbor().to_vec()),
            MultiEraTx::Babbage(x) => Option::from(x.auxiliary_data.clone()).map(|k: pallas_codec::utils::KeepRaw<_>| k.raw_cbor().to_vec()),
            MultiEraTx::Conway(x) => Option::from(x.auxiliary_data.clone()).map(|k: pallas_codec::utils::KeepRaw<_>| k.raw_cbor().to_vec()),
            _ => unreachable!(),
        };
        if aux_keys.contains(&(i as u32)) {
            assert_eq!(a.as_ref(), aux_raw.get(&(i as u32)), "tx {i}: auxiliary data keyed {i}");
        } else {
            assert!(a.is_none(), "tx {i}: no auxiliary data is keyed {i}");
        }
    }
}

macro_rules! scenario {
    ($name:ident, $era:ident, $file:expr, $wrap:expr) => {
        #[test]
        fn $name() {
            let bytes = load($file);
            let (_, mut block): (u16, $era::Block) = minicbor::decode(&bytes).unwrap();
            // fixtures with fewer than 3 transactions are padded with copies of their last one
            while block.transaction_bodies.len() < 3 {
                let b = block.transaction_bodies.last().unwrap().clone();
                let w = block.transaction_witness_sets.last().unwrap().clone();
                block.transaction_bodies.push(b);
                block.transaction_witness_sets.push(w);
            }
            let n = block.transaction_bodies.len();
            // one auxiliary-data value taken from the block (or skip the aux part if it has none)
            let donor = block.auxiliary_data_set.values().next().cloned();
            let mut aux_raw = std::collections::BTreeMap::new();
            block.auxiliary_data_set.clear();
            let mut aux_keys = vec![];
            if let Some(d) = donor {
                for k in [0u32, (n - 1) as u32] {
                    aux_raw.insert(k, d.raw_cbor().to_vec());
                    block.auxiliary_data_set.insert(k, d.clone());
                    aux_keys.push(k);
                }
            }
            let invalid = vec![(n - 1) as u32, 0u32]; // deliberately not in ascending order
            block.invalid_transactions = Some(invalid.clone());
            let hashes: Vec<Vec<u8>> = block.transaction_bodies.iter().map(|b| pallas_crypto::hash::Hasher::<256>::hash(b.raw_cbor()).to_vec()).collect();
            let wits: Vec<Vec<u8>> = block.transaction_witness_sets.iter().map(|w| w.raw_cbor().to_vec()).collect();
            let meb: MultiEraBlock = $wrap(block);
            let txs = meb.txs();
            check(&txs, &hashes, &wits, &invalid, &aux_keys, &aux_raw);
        }
    };
}

scenario!(c30_alonzo, alonzo, "alonzo1.block", |b| MultiEraBlock::AlonzoCompatible(Box::new(b), Era::Alonzo));
scenario!(c30_babbage, babbage, "babbage4.block", |b| MultiEraBlock::Babbage(Box::new(b)));
scenario!(c30_conway, conway, "conway1.block", |b| MultiEraBlock::Conway(Box::new(b)));
