//! Native replay for C39 counterexample classes: validate_txs on real fixture sequences.
//! Scenario A: [valid tx with certificates, tx that fails] -> Err and certificate state unchanged.
//! Scenario B: [valid tx with certificates] -> Ok and certificate state carries its effects.
//! Scenario C: a single tx whose first certificate fails -> state unchanged.
//! Scenario D: a single tx that fails after its first certificate was applied (delegation to an unregistered pool) -> state unchanged.
#[path = "/repo/pallas-validate/tests/common.rs"]
pub mod common;
use common::*;
use pallas_codec::minicbor::{decode::{Decode, Decoder}, encode};
use pallas_crypto::hash::Hash;
use pallas_primitives::alonzo::{Certificate, Nonce, NonceVariant, PoolKeyhash, RationalNumber, TransactionBody, Tx, Value};
use pallas_traverse::{Era, MultiEraTx};
use pallas_validate::phase1::validate_txs;
use pallas_validate::utils::{AccountState, CertState, Environment, MultiEraProtocolParameters, PoolParam, ShelleyProtParams, UTxOs};
use std::str::FromStr;

const MARY3_UTXO: &str = "014faace6b1de3b825da7c7f4308917822049cdedb5868f7623f892d4e39cf0461807b986a6477205e376dac280d7f150eb497025f67c49757";

fn mary2_pool_operator() -> PoolKeyhash {
    Hash::from_str("59EBE72AE96462018FBE04633100F90B3066688D85F00F3BD254707F").unwrap()
}

fn pool_param() -> PoolParam {
    PoolParam {
        vrf_keyhash: Hash::from_str("1EFB798F239B9B02DEB4636A3AB1962AF43512595FCB82276E11971E684E49B7").unwrap(),
        pledge: 1,
        cost: 340_000_000,
        margin: RationalNumber { numerator: 1, denominator: 100 },
        reward_account: hex::decode("E1FB2B631DB76384F64DD94B47F97FC8C2A206764C17A1DE7DA2F70E83").unwrap().into(),
        pool_owners: vec![],
        relays: vec![],
        pool_metadata: None,
    }
}

fn mary3_env() -> Environment {
    Environment {
        prot_params: MultiEraProtocolParameters::Shelley(ShelleyProtParams {
            system_start: chrono::DateTime::parse_from_rfc3339("2017-09-23T21:44:51Z").unwrap(),
            epoch_length: 432000,
            slot_length: 1,
            minfee_b: 155381,
            minfee_a: 44,
            max_block_body_size: 65536,
            max_transaction_size: 16384,
            max_block_header_size: 1100,
            key_deposit: 2_000_000,
            pool_deposit: 500_000_000,
            maximum_epoch: 18,
            desired_number_of_stake_pools: 500,
            pool_pledge_influence: RationalNumber { numerator: 3, denominator: 10 },
            expansion_rate: RationalNumber { numerator: 3, denominator: 1000 },
            treasury_growth_rate: RationalNumber { numerator: 2, denominator: 10 },
            decentralization_constant: RationalNumber { numerator: 0, denominator: 1 },
            extra_entropy: Nonce { variant: NonceVariant::NeutralNonce, hash: None },
            protocol_version: (4, 0),
            min_utxo_value: 1_000_000,
            min_pool_cost: 340_000_000,
        }),
        prot_magic: 764824073,
        block_slot: 29_035_358,
        network_id: 1,
        acnt: Some(AccountState { treasury: 374_930_989_230_000, reserves: 12_618_536_190_580_000 }),
    }
}

/// observable summary of a certificate state (CertState has no PartialEq)
fn summary(cs: &CertState) -> (usize, usize, usize, usize) {
    (cs.dstate.rewards.len(), cs.dstate.delegations.len(), cs.dstate.ptrs.len(), cs.pstate.pool_params.len())
}

fn entry_state() -> CertState {
    let mut cs = CertState::default();
    cs.pstate.pool_params.insert(mary2_pool_operator(), pool_param());
    cs
}

#[test]
fn c39_err_leaves_state_unchanged_and_ok_applies_in_order() {
    let cbor_bytes: Vec<u8> = cbor_to_bytes(include_str!("/repo/test_data/mary3.tx"));
    let mtx: Tx = minted_tx_from_cbor(&cbor_bytes);
    let utxos: UTxOs = mk_utxo_for_alonzo_compatible_tx(&mtx.transaction_body, &[(String::from(MARY3_UTXO), Value::Coin(627_760_000), None)]);
    let env = mary3_env();

    // B: single valid tx: Ok, effects visible (stake key registered + delegated)
    let mut cs = entry_state();
    let before = summary(&cs);
    let metx = MultiEraTx::from_alonzo_compatible(&mtx, Era::Mary);
    let r = validate_txs(&[metx.clone()], &env, &utxos, &mut cs);
    assert!(r.is_ok(), "fixture must validate: {r:?}");
    let after_one = summary(&cs);
    assert_ne!(before, after_one, "valid certificate tx must change the certificate state");

    // A: [valid, same tx again]: the second registration of the same key must fail; state must be the entry state
    let mut cs = entry_state();
    let r = validate_txs(&[metx.clone(), metx.clone()], &env, &utxos, &mut cs);
    match r {
        Err(_) => assert_eq!(summary(&cs), before, "failed sequence must leave the caller's certificate state unchanged"),
        Ok(()) => assert_eq!(summary(&cs).1, after_one.1, "state after Ok must be the state after applying all txs in order"),
    }

    // C: one tx whose second certificate fails after the first was applied (delegation before registration)
    let mut mtx2: Tx = minted_tx_from_cbor(&cbor_bytes);
    let old: Vec<Certificate> = mtx2.transaction_body.certificates.as_ref().unwrap().clone();
    let mut body: TransactionBody = mtx2.transaction_body.unwrap().clone();
    body.certificates = Some(vec![old[1].clone(), old[0].clone()]);
    let mut buf: Vec<u8> = Vec::new();
    encode(body, &mut buf).unwrap();
    mtx2.transaction_body = Decode::decode(&mut Decoder::new(buf.as_slice()), &mut ()).unwrap();
    let metx2 = MultiEraTx::from_alonzo_compatible(&mtx2, Era::Mary);
    let utxos2: UTxOs = mk_utxo_for_alonzo_compatible_tx(&mtx2.transaction_body, &[(String::from(MARY3_UTXO), Value::Coin(627_760_000), None)]);
    let mut cs = entry_state();
    let r = validate_txs(&[metx2], &env, &utxos2, &mut cs);
    assert!(r.is_err());
    assert_eq!(summary(&cs), before, "a failing transaction must leave the caller's certificate state unchanged");

    // D: one tx whose first certificate (stake registration) is applied and whose second (delegation to a pool that is
    // not registered: empty entry state) is rejected: the caller's state must not show the registration
    let mut cs = CertState::default();
    let before_d = summary(&cs);
    let r = validate_txs(&[metx.clone()], &env, &utxos, &mut cs);
    assert!(r.is_err(), "delegation to an unregistered pool must be rejected");
    assert_eq!(summary(&cs), before_d, "a transaction that fails after its first certificate must leave the caller's certificate state unchanged");

    // A': [valid, failing]: first applies, second fails -> unchanged
    let mut cs = entry_state();
    let metx2 = MultiEraTx::from_alonzo_compatible(&mtx2, Era::Mary);
    let r = validate_txs(&[metx.clone(), metx2], &env, &utxos, &mut cs);
    assert!(r.is_err());
    assert_eq!(summary(&cs), before, "failed sequence must leave the caller's certificate state unchanged");
}
