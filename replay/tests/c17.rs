//! Native replay of a C17 counterexample: C17_CASE="op;precision;x;y" (decimal strings for the raw data).
//! Without C17_CASE a fixed set of boundary cases is checked.
use dashu_base::Abs;
use dashu_int::IBig;
use pallas_math::math::FixedPrecision;
use pallas_math::math_dashu::Decimal;
use std::str::FromStr;

fn d(s: &str, p: u64) -> Decimal { Decimal::from_str(s, p).unwrap() }
fn data(x: &Decimal, p: u64) -> IBig {
    // raw data = x * 10^p printed without the dot
    let s = x.to_string().replace('.', "");
    let _ = p;
    IBig::from_str(&s).unwrap()
}
fn fdiv(a: &IBig, m: &IBig) -> IBig { // floor division, m > 0
    let q = a / m;
    if (a % m) < IBig::ZERO { q - IBig::ONE } else { q }
}

fn check(op: &str, p: u64, xs: &str, ys: &str) {
    let m = IBig::from(10).pow(p as usize);
    let x = IBig::from_str(xs).unwrap();
    let y = IBig::from_str(ys).unwrap();
    let a = d(xs, p);
    let b = d(ys, p);
    match op {
        "floor" => assert_eq!(data(&a.floor(), p), fdiv(&x, &m) * &m, "floor({xs}) at p={p}"),
        "ceil" => assert_eq!(data(&a.ceil(), p), -fdiv(&-&x, &m) * &m, "ceil({xs}) at p={p}"),
        "trunc" => assert_eq!(data(&a.trunc(), p), (&x / &m) * &m, "trunc({xs}) at p={p}"),
        "round" => {
            let r = data(&a.round(), p);
            assert_eq!(&r % &m, IBig::ZERO, "round({xs}) at p={p} is integral");
            assert!((&r - &x).abs() * IBig::from(2) <= m, "round({xs}) at p={p} = {r} is more than one half away");
        }
        "neg" => assert_eq!(data(&-&a, p), -&x),
        "abs" => assert_eq!(data(&(&a).abs(), p), (&x).abs()),
        "add" | "add_assign" => assert_eq!(data(&(&a + &b), p), &x + &y),
        "sub" | "sub_assign" => assert_eq!(data(&(&a - &b), p), &x - &y),
        "mul" | "mul_assign" => assert_eq!(data(&(&a * &b), p), fdiv(&(&x * &y), &m), "mul({xs},{ys})"),
        "div" | "div_assign" => {
            if y != IBig::ZERO {
                assert_eq!(data(&(&a / &b), p), (&x * &m) / &y, "div({xs},{ys})");
            }
        }
        "partial_cmp" => assert_eq!(a.partial_cmp(&b), Some(x.cmp(&y))),
        "eq" => assert_eq!(a == b, x == y),
        _ => panic!("unknown op {op}"),
    }
}

#[test]
fn c17_case() {
    if let Ok(c) = std::env::var("C17_CASE") {
        let f: Vec<&str> = c.split(';').collect();
        check(f[0], f[1].parse().unwrap(), f[2], f[3]);
        return;
    }
    for p in [1u64, 2, 34] {
        for x in ["0", "1", "-1", "5", "-5", "15", "-15", "149", "-150", "99999999999999999999999999999999999999", "-99999999999999999999999999999999999999"] {
            for op in ["floor", "ceil", "trunc", "round", "neg", "abs"] {
                check(op, p, x, "0");
            }
        }
    }
    for (x, y) in [("3", "7"), ("-3", "7"), ("30000000000000000000000000000000000", "-7"), ("-1", "-3")] {
        for op in ["add", "sub", "mul", "div", "partial_cmp", "eq"] {
            check(op, 34, x, y);
        }
    }
}
