//! Native replay for the in-chunk seek queries (C42) on the immutable DB fixture in /repo/test_data (1777
//! blocks, two chunks): for blocks preceded by an empty slot (first, across the chunk gap, last such block)
//!  * the exact point (slot, hash) resolves and the iterator starts at that block;
//!  * (slot - 1, hash) -- the block's hash at a slot where no block exists -- is an absent point: CannotFindBlock;
//!  * (slot, other block's hash) is absent as well;
//!  * the fuzzy points (slot, []) and (slot - 1, []) start at that block.
//! The solver's counterexample class (env C42_CASE) only selects what is printed first; all cases always run.
use pallas_hardano::storage::immutable::{read_blocks, read_blocks_from_point, Error, Point};
use pallas_traverse::MultiEraBlock;
use std::path::Path;

fn db() -> &'static Path {
    Path::new("/repo/test_data")
}

fn first_of(p: Point) -> Result<Option<(u64, Vec<u8>)>, Error> {
    let mut it = read_blocks_from_point(db(), p)?;
    Ok(it.next().map(|b| {
        let b = b.unwrap();
        let b = MultiEraBlock::decode(&b).unwrap();
        (b.slot(), b.hash().to_vec())
    }))
}

#[test]
fn c42_seek_accepts_exactly_the_point() {
    if let Ok(c) = std::env::var("C42_CASE") {
        eprintln!("solver counterexample class: {c}");
    }
    let points: Vec<(u64, Vec<u8>)> = read_blocks(db())
        .unwrap()
        .map(|b| {
            let b = b.unwrap();
            let b = MultiEraBlock::decode(&b).unwrap();
            (b.slot(), b.hash().to_vec())
        })
        .collect();
    assert!(points.len() > 100);
    let cands: Vec<usize> = (1..points.len()).filter(|&i| points[i].0 - points[i - 1].0 > 1).collect();
    let across = (1..points.len()).max_by_key(|&i| points[i].0 - points[i - 1].0).unwrap();
    let mut bad = vec![];
    for i in [cands[0], across, *cands.last().unwrap()] {
        let (slot, hash) = points[i].clone();
        let other = points[i - 1].1.clone();
        match first_of(Point::Specific(slot, hash.clone())) {
            Ok(Some(f)) if f == (slot, hash.clone()) => {}
            r => bad.push(format!("exact point of block {i} (slot {slot}): {:?}", r.map_err(|e| e.to_string()))),
        }
        match first_of(Point::Specific(slot - 1, hash.clone())) {
            Err(Error::CannotFindBlock(_)) => {}
            r => bad.push(format!("absent point (slot {} with the hash of the block at slot {slot}) is accepted: {:?}", slot - 1, r.map_err(|e| e.to_string()))),
        }
        match first_of(Point::Specific(slot, other)) {
            Err(Error::CannotFindBlock(_)) => {}
            r => bad.push(format!("absent point (slot {slot} with another block's hash) is accepted: {:?}", r.map_err(|e| e.to_string()))),
        }
        for s in [slot, slot - 1] {
            match first_of(Point::Specific(s, vec![])) {
                Ok(Some(f)) if f == (slot, hash.clone()) => {}
                r => bad.push(format!("fuzzy point at slot {s}: expected the block at slot {slot}, got {:?}", r.map_err(|e| e.to_string()))),
            }
        }
    }
    for b in &bad {
        eprintln!("C42-VIOLATION {b}");
    }
    assert!(bad.is_empty(), "{} seek case(s) fail", bad.len());
}
