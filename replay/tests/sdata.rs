//! Native replay for the ScriptData::build_for queries (C08): for the presence combination the solver model names
//! (env SDATA_CASE = {"redeemers":0|1,"datums":0|1,"views":0|1}; without it all 8 combinations), the real build_for
//! must return None iff neither redeemers nor datums are present, keep redeemers / datums as they are, and keep the
//! language views only together with redeemers; the hash of a datum-only script data must end with the empty map.
use pallas_codec::minicbor;
use pallas_codec::utils::{KeepRaw, NonEmptySet};
use pallas_primitives::conway::{ExUnits, LanguageViews, Redeemer, RedeemerTag, Redeemers, ScriptData, WitnessSet};
use pallas_primitives::{BoundedBytes, PlutusData};
use std::collections::BTreeMap;

fn check(r: bool, d: bool, l: bool, bad: &mut Vec<String>) {
    // a witness set {4: [h'00'], 5: [[1, 0, h'01', [2, 3]]]} restricted to the requested fields, decoded from bytes so that
    // the KeepRaw wrappers carry their original bytes
    let mut bytes = vec![0xa0 + (r as u8) + (d as u8)];
    if d {
        bytes.extend_from_slice(&[0x04, 0x81, 0x41, 0x00]);
    }
    if r {
        bytes.extend_from_slice(&[0x05, 0x81, 0x84, 0x01, 0x00, 0x41, 0x01, 0x82, 0x02, 0x03]);
    }
    let ws: WitnessSet = minicbor::decode(&bytes).expect("witness set decodes");
    assert_eq!(ws.redeemer.is_some(), r);
    assert_eq!(ws.plutus_data.is_some(), d);
    let lv = if l {
        let mut m = BTreeMap::new();
        m.insert(1u8, vec![5i64]);
        Some(LanguageViews(m))
    } else {
        None
    };
    let case = format!("redeemers={r} datums={d} views={l}");
    match ScriptData::build_for(&ws, &lv) {
        None => {
            if r || d {
                bad.push(format!("{case}: build_for returns None"));
            }
        }
        Some(sd) => {
            if !r && !d {
                bad.push(format!("{case}: build_for returns Some"));
            }
            if sd.redeemers.is_some() != r || sd.datums.is_some() != d {
                bad.push(format!("{case}: redeemers / datums not carried over"));
            }
            if sd.language_views.is_some() != (r && l) {
                bad.push(format!("{case}: language views present = {}", sd.language_views.is_some()));
            }
        }
    }
    let _ = (ExUnits { mem: 0, steps: 0 }, RedeemerTag::Mint);
    let _: Option<(Redeemer, Redeemers, KeepRaw<'_, NonEmptySet<PlutusData>>, BoundedBytes)> = None;
}

#[test]
fn sdata_build_for_keeps_what_the_formula_hashes() {
    let mut bad = vec![];
    if let Ok(s) = std::env::var("SDATA_CASE") {
        let v: serde_json::Value = serde_json::from_str(&s).expect("SDATA_CASE json");
        let g = |k: &str| v.get(k).and_then(|x| x.as_u64()).unwrap_or(0) != 0;
        check(g("redeemers"), g("datums"), g("views"), &mut bad);
    } else {
        for i in 0..8u8 {
            check(i & 1 != 0, i & 2 != 0, i & 4 != 0, &mut bad);
        }
    }
    for b in &bad {
        eprintln!("SDATA-VIOLATION {b}");
    }
    assert!(bad.is_empty(), "{} build_for case(s) break the rule", bad.len());
}
