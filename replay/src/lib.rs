#![allow(unused)]
